"""C11 — URI equality means component-wise identity."""
import json, itertools
import lib, uris
from lib import enc, enc_s, dec, show

PID = "C11"

def pool(chk, mdl):
    base = dict(scheme="s", userInfo="u", hostText="h", port="8", segs=["a", "b"], query="q", fragment="f")
    raws = [uris.raw(**base)]
    # one component changed at a time: absent, empty, different, case
    for k in ("scheme", "userInfo", "hostText", "port", "query", "fragment"):
        for v in (None, "", "x", "S" if k == "scheme" else "U"):
            d = dict(base); d[k] = v
            if k == "hostText" and v is None: d["userInfo"] = None; d["port"] = None
            raws.append(uris.raw(**d))
    for segs in ([], [""], ["a"], ["a", ""], ["a", "b", ""], ["", "a", "b"], ["a", "c"], ["A", "b"], ["a", "b", "c"], ["a/b"]):
        d = dict(base); d["segs"] = segs; raws.append(uris.raw(**d))
        raws.append(uris.raw(scheme="s", segs=segs)); raws.append(uris.raw(scheme="s", segs=segs, abs_=1))
        raws.append(uris.raw(segs=segs)); raws.append(uris.raw(segs=segs, abs_=1))
    for ip4 in ([1, 2, 3, 4], [1, 2, 3, 5]):
        raws.append(uris.raw(scheme="s", hostText="1.2.3.4", ip4=ip4)); raws.append(uris.raw(scheme="s", hostText="x", ip4=ip4))
    for ip6 in ([0] * 15 + [1], [0] * 15 + [2]):
        raws.append(uris.raw(scheme="s", hostText="::1", ip6=ip6)); raws.append(uris.raw(scheme="s", hostText="0::1", ip6=ip6))
    raws.append(uris.raw(scheme="s", hostText="v1.x", ipFuture="v1.x")); raws.append(uris.raw(scheme="s", hostText="v1.y", ipFuture="v1.y"))
    raws.append(uris.raw(scheme="s", hostText="v1.x"))
    texts = ["s:/a", "s:a", "s:/", "s:", "/a", "a", "", "/", "//h", "//h/", "//H", "?", "#", "?#", "s://h/a?q#f", "s://1.2.3.4", "s://1.2.3.04", "s://[::1]", "s://[0:0::1]", "s://[::2]",
             "s://[v1.x]", "s://h:", "s://h", "s://@h", "s://h/a/b", "s://h/a%2Fb", "s://h/a/", "S://h"]
    texts += uris.valid_texts(mdl, uris.small_texts(2, alphabet=["a", ""], auths=(None, "//h"), schemes=(None, "s"), queries=(None, "")))
    texts = sorted(set(texts))
    return sorted(set(raws)), texts

def is_dotted_quad(h):
    """the hex-encoded host text is four dec-octets (what the parser classifies as IPv4)"""
    t = "".join(chr(c) for c in (dec(h) or []))
    p = t.split(".")
    return len(p) == 4 and all(x.isdigit() and (x == "0" or not x.startswith("0")) and int(x) <= 255 and len(x) <= 3 for x in p)

def obj_of_raw(r):
    w = r.split()   # R scheme ui host ip4 ip6 fut port abs n segs.. q f
    n = int(w[9])
    return uris.Obj(w[1:9] + ["0"] + [str(n)] + w[10:10 + n] + w[10 + n:12 + n] + ["ok"])

def run(chk):
    import os
    extra = tuple(x for x in ("C11text",) if os.path.exists(os.path.join(lib.COQ, "Props", x + ".v")))
    proofs = lib.check_proofs(PID, extra_props=extra)
    exes = lib.build_impl(); mdl = lib.build_model()
    fnd = lib.Findings(PID)
    raws, texts = pool(chk, mdl)
    args = raws + [uris.P(t) for t in texts]
    pairs = list(itertools.product(range(len(args)), repeat=2))
    if chk.tier == "quick" and len(pairs) > 120000: pairs = chk.rng.sample(pairs, 120000)
    reqs = ["equals %s %s" % (args[i], args[j]) for i, j in pairs] + ["equals N N", "equals N " + args[0], "equals %s N" % args[0]]
    model = lib.run_lines(mdl, reqs)
    nontrivial = set(); corr = []
    for fl, stride in {"A": 1, "W": 1, "A_asan": 7, "W_asan": 11}.items():
        exe = exes[fl]
        po = lib.run_lines(exe, ["parse %s 3" % enc_s(t) for t in texts])
        objs = [obj_of_raw(r) for r in raws] + [uris.Obj(o.split()[4:]) for o in po]
        idx = [k for k in range(len(reqs)) if k % stride == 0 or k >= len(pairs)]
        impl = lib.run_lines(exe, [reqs[k] for k in idx])
        chk.cov["evaluations"] += len(idx); chk.cov["traces_validated_against_impl"] += len(idx)
        for k, o in zip(idx, impl):
            if o != model[k]: corr.append((k, fl, o))
            w = o.split()
            if len(w) != 4 or w[0] != "equals":
                chk.violation("crash / malformed result: " + o[:150], {"request": reqs[k], "build": fl, "impl": o}); continue
            if w[2] != "1" or w[3] != "1":
                chk.violation("comparison modified an argument", {"request": reqs[k], "build": fl, "impl": o}); continue
            if k >= len(pairs):
                want = "1" if reqs[k] == "equals N N" else "0"
                if w[1] != want: chk.violation("NULL handling: two NULL arguments must be equal, NULL and non-NULL unequal", {"request": reqs[k], "build": fl, "impl": o})
                continue
            i, j = pairs[k]
            want = "1" if objs[i].key() == objs[j].key() else "0"
            if w[1] != want:
                chk.violation("uriEqualsUri = %s but the components are %s" % (w[1], "identical" if want == "1" else "different"),
                              {"request": reqs[k], "a": args[i], "b": args[j], "build": fl, "impl": o})
            if fl == "A": nontrivial.add((i, j))
    # ---- views of ONE buffer: the two objects share pointers (same first, different ends; overlapping ranges).  Equality
    #      is about the component texts, never about where they are stored.
    vreq = []; vmeta = []
    vtexts = ["s://u@h:80/a/b?q#f", "http://example.org/docs/index.html", "s://h:8080", "a/b/c", "//h.org/x?key=value#top", "s://[::1]:8/a", "s:a/b?q"]
    vfields = [enc_s(t) for t in vtexts]
    vok = {}
    cand = [(ti, off, ln) for ti, t in enumerate(vtexts) for off in (0, 1, 2) for ln in range(0, len(t) - off + 1)]
    outs = lib.run_lines(mdl, ["parse %s 3" % enc_s(vtexts[ti][off:off + ln]) for ti, off, ln in cand])
    for c_, o in zip(cand, outs):
        if o.startswith("parse 0 "): vok[c_] = uris.Obj(o.split()[4:])
    for ti in range(len(vtexts)):
        views = [c_ for c_ in vok if c_[0] == ti]
        prs = [(x, y) for x in views for y in views]
        if chk.tier == "quick" and len(prs) > 1500: prs = chk.rng.sample(prs, 1500)
        for x, y in prs:
            vreq.append("equals S %s %d %d S %s %d %d" % (vfields[ti], x[1], x[2], vfields[ti], y[1], y[2])); vmeta.append((x, y))
    vmodel = lib.run_lines(mdl, vreq)
    for fl in ("A", "W", "A_asan"):
        vimpl = lib.run_lines(exes[fl], vreq)
        chk.cov["evaluations"] += len(vreq); chk.cov["traces_validated_against_impl"] += len(vreq)
        for rq, (x, y), o, m in zip(vreq, vmeta, vimpl, vmodel):
            if o != m: corr.append((rq, fl, o))
            w = o.split()
            if len(w) != 4 or w[0] != "equals":
                chk.violation("crash / malformed result: " + o[:150], {"request": rq, "build": fl, "impl": o}); continue
            want = "1" if vok[x].key() == vok[y].key() else "0"
            if w[1] != want:
                chk.violation("uriEqualsUri = %s for two URIs parsed from overlapping ranges of one buffer (%s and %s) whose components are %s"
                              % (w[1], show(enc_s(vtexts[x[0]][x[1]:x[1] + x[2]])), show(enc_s(vtexts[y[0]][y[1]:y[1] + y[2]])), "identical" if want == "1" else "different"),
                              {"request": rq, "build": fl, "impl": o})
    # ---- library-produced URIs: equal exactly when the recomposed texts are identical
    recipes = []
    srcs = ["s:/a/..", "s:/", "s:/a/.", "s:/a/", "s:a/..", "s:", "s://h/a/..", "s://h/", "s://h", "S://H/%41", "s://h/A", "a/b/..", "a/", "/a/../b", "/b", "//h/../b", "//h/b",
            # a registered name that reads as an IPv4 address once its triplets are decoded (D17), next to the address itself
            "//%31.2.3.4", "//1.2.3.4", "s://1.2.3.%34/a", "s://1.2.3.4/a", "/", "/a"]
    for t in srcs:
        recipes.append([('p', 0, t)]); recipes.append([('p', 0, t), ('n', 0, 63)]); recipes.append([('p', 0, t), ('o', 0)])
    for r, b in [("..", "s:/x/y"), ("/./", "s:/a/"), (".//b", "s:a"), ("/b", "s:a"), ("../../", "s:/./a"), ("../../.", "s:/./a"), ("b", "s://h/a"), ("./b", "s://h/a"), ("/.//a", "s:/x"), ("s:/.//a", "s:/x"), ("", "s://h/a?q"), ("?q", "s://h/a")]:
        recipes.append([('p', 1, r), ('p', 2, b), ('a', 0, 1, 2, 0)]); recipes.append([('p', 1, r), ('p', 2, b), ('a', 0, 1, 2, 0), ('n', 0, 63)])
    for s_, b in [("s://h/a/b", "s://h/a/c"), ("s://h/a/b", "s://h/x"), ("s:/a/b", "s:/a/c"), ("s://h/", "s://h/a"), ("s://h/a", "s://h/a/b"), ("s://h", "s://h/a")]:
        recipes.append([('p', 1, s_), ('p', 2, b), ('r', 0, 1, 2, 0)]); recipes.append([('p', 1, s_), ('p', 2, b), ('r', 0, 1, 2, 1)])
    def shift(rec, off):
        out = []
        for st in rec:
            if st[0] == 'p': out.append(('p', st[1] + off, st[2]))
            elif st[0] in ('a', 'r'): out.append((st[0], st[1] + off, st[2] + off, st[3] + off, st[4]))
            else: out.append((st[0], st[1] + off) + tuple(st[2:]))
        return out
    hreq = []
    for x, y in itertools.product(range(len(recipes)), repeat=2):
        hreq.append(uris.hist(shift(recipes[x], 0) + shift(recipes[y], 3) + [('e', 0, 3)]))
    hmodel = lib.run_lines(mdl, hreq)
    for fl in ("A", "W"):
        himpl = lib.run_lines(exes[fl], hreq)
        chk.cov["evaluations"] += len(hreq); chk.cov["traces_validated_against_impl"] += len(hreq)
        for rq, o, m in zip(hreq, himpl, hmodel):
            if o != m: corr.append((rq, fl, o))
            steps, end = uris.parse_hist(o)
            if steps is None or end["live"] != 0 or end["bad"] != 0 or any("bad" in s for s in steps):
                chk.violation("crash, malformed object or unbalanced memory: " + o[-160:], {"request": rq, "build": fl, "impl": o}); continue
            objs = [s for s in steps if s.get("obj")]
            eqs = [s for s in steps if "eq" in s]
            if not eqs: continue
            # the two compared objects are the last states of slot 0 and slot 3: last object step before each half ends
            n0 = len(shift(recipes[0], 0))
            # recover by replay: slot states
            state = {}
            k = 0
            for tok, s in zip(rq.split()[1:], steps):
                if "obj" in s and s["obj"] is not None: state[int(tok[1])] = s
                elif s.get("rc") not in (None, 0): state.pop(int(tok[1]), None)
            if 0 not in state or 3 not in state: continue
            a, b = state[0], state[3]
            same_text = a["text"] == b["text"]
            if bool(eqs[-1]["eq"]) != same_text:
                shape = None
                for s in (a, b):
                    ob = s["obj"]
                    if not ob.has_host() and ob.abs == "0" and len(ob.segs) >= 2 and ob.segs[0] == "_": shape = "c11_rootless_leading_empty"
                    elif ob.has_host() and ob.ip4 == "-" and ob.ip6 == "-" and ob.ipFuture == "-" and is_dotted_quad(ob.hostText): shape = "c11_ip4_spelled_regname"
                if shape and o == m and fnd.covers(shape, {"history": rq}): continue
                chk.violation("two library-produced URIs: uriEqualsUri = %d but recomposed texts are %s" % (eqs[-1]["eq"], "identical" if same_text else "different"),
                              {"request": rq, "build": fl, "impl": o, "text_a": show(a["text"]), "text_b": show(b["text"]), "shape": shape})
    if corr and not chk.violations:
        k, fl, o = corr[0]
        rq = reqs[k] if isinstance(k, int) else k
        chk.violation("correspondence broken: Model/Compare.v and uriEqualsUri disagree (%d cases)" % len(corr),
                      {"correspondence": "Model/Compare.v vs src/UriCompare.c", "request": rq, "build": fl, "impl": o}, found_input=False)
    still = {}
    for f in fnd.items:
        o = lib.run_lines(exes["A"], [f["witness_args"][0]])[0]
        steps, _ = uris.parse_hist(o)
        toks = f["witness_args"][0].split()[1:]
        # the last state of every slot, then the comparison step e<i>=<j>: unequal although the two texts are the same
        state = {}; fails = False
        for tok, s in zip(toks, steps or []):
            if s.get("obj"): state[int(tok[1:].split("=")[0])] = s
            if tok[0] == "e" and "eq" in s:
                i, j = int(tok[1:].split("=")[0]), int(tok.split("=")[1])
                fails = s["eq"] == 0 and i in state and j in state and state[i]["text"] == state[j]["text"]
        still[f["shape"]] = fails
    fnd.report(chk, still)
    chk.cov["distinct_nontrivial"] = len(nontrivial)
    chk.cov["rule"] = "pool of raw objects differing in one component at a time (absent / empty / different / case; IPv4 and IPv6 by value; segment lists) and parsed texts; all ordered pairs (sampled to 120000 in the quick tier); NULL arguments; %d x %d pairs of library-produced objects (parse, normalize, make-owner, resolve, create-reference recipes) compared with their recomposed texts" % (len(recipes), len(recipes))
    chk.cov["distribution"] = {"raw_objects": len(raws), "parsed_texts": len(texts), "pairs": len(pairs), "recipe_pairs": len(hreq), "known_finding_hits": fnd.hits}
    chk.cov["samples"] = [{"request": reqs[0], "model": model[0]}, {"request": hreq[5], "model": hmodel[5]}]
    return chk.finish(proofs)

def replay(path):
    r = json.load(open(path)); exes = lib.build_impl(); mdl = lib.build_model()
    rq = r.get("request")
    if not rq: print(json.dumps(r, indent=1)); return 0
    print("request:", rq); print("model  :", lib.run_lines(mdl, [rq])[0])
    for fl, exe in exes.items(): print("impl %-7s:" % fl, lib.run_lines(exe, [rq])[0])
    return 0
