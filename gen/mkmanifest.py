#!/usr/bin/env python3
"""Writes MANIFEST.json from the table below (keeps it schema-valid at all times)."""
import json, os
VERIF = os.path.dirname(os.path.dirname(os.path.abspath(__file__)))

# pid -> (technique, level text, level note, design ref)
TB = "Trusted: Coq 8.16.1 kernel and vm_compute, extraction (ExtrOcamlBasic only), OCaml glue, C harness built from /repo's working tree, gcc/ASan/UBSan, python comparison. The theorems are about the hand-written model; the model is tied to the code by the correspondence run of this check (testing, exhaustive over small scopes / the model's control automaton, sampled beyond)."
CLAIMED = {
 "C01": ("Coq proof by reflection (derivative bisimulation of the parser model's control automaton with the RFC 3986 grammar, checked by vm_compute) + extracted-model/implementation correspondence over an automaton-derived conformance suite",
         "Theorems for all strings of any code points: the model parser accepts iff the text matches URI-reference of RFC 3986 Appendix A; a rejected text is reported at the first dead character (anywhere inside the same bracketed literal when the dead character lies in one). The model is tied to src/UriParse.c by a conformance suite generated from the model's 971-state control automaton (state cover x every atom / every ASCII character x completions), grammar-directed and mutated URIs, the repository's test strings, all six entry points, char and wchar_t, plain and ASan; the RFC oracle (extracted matcher and error-window function) is evaluated on the implementation's own verdicts.",
         TB, "5 C01"),
 "C02": ("Coq proof (data invariant of the parser automaton by induction over the run: parse followed by unparse is the identity; well-formedness of every parsed object; equality with an RFC 3986 Appendix-B splitter; IPv4/IPv6 value lemmas) + correspondence against the splitter oracle",
         "Theorems for every accepted text: writing the parsed components back with their delimiters gives the input (components are consecutive sub-ranges); each component consists of the characters of its grammar rule; absent vs empty components, path segments, absolute-path flag, host kind equal those of an independently written RFC splitter; IPv4 octets and IPv6 bytes equal the value of the text (RFC 4291 '::' expansion, embedded dotted quad), rendering/reading round trips. 'Tail is the last node' is not expressible over the model's list and is checked on the implementation only.",
         TB, "5 C02"),
 "C03": ("Coq proof (components are contiguous pieces of the input; ledger theorem: nothing remains allocated after a syntax or out-of-memory failure) + placement correspondence at the end of readable memory",
         "Theorems: every text a parsed object reports is a contiguous piece of the input; after a failed parse the ledger holds exactly the blocks it held before, no bad release, for every fault plan. 'Never reads outside [first, afterLast) and never writes to the input' is runtime behaviour: the model consumes exactly the range by construction, and the check places each text at the end of a readable page / in the middle of buffers with varying trailing content, for all split points, under ASan, and compares with the model run on the range alone.",
         TB + " Partial: out-of-range reads and writes to the input are observed (guard page, ASan, trailing-content variation), not proved.", "5 C03"),
 "C04": ("Coq proof (recomposition of a parsed object equals the unparse of C02 with the engine's host rendering; IPv4 and IPv6 rendering lemmas) + correspondence over accepted texts",
         "Theorems for every accepted text: to_text(parse s) is s with the host as the engine renders it; equal to s for hosts that are not addresses, and re-parsing gives the same object; for an IPv6 literal the text is pre[rendered bytes]post with the bytes of the literal; the IPv4/IPv6 rendering lemmas (C02ip4/C02ip6) give character-for-character identity for dotted quads and the canonical eight-group lower-case form denoting the same address. Tied to src/UriRecompose.c and src/UriParse.c by parse -> toString -> parse on generated accepted texts, borrowed and owned.",
         TB, "5 C04"),
 "C05": ("Coq proof (induction over the copy sequence with an explicit write log) + correspondence over every capacity",
         "Theorems for every URI value and every capacity: chars-required = length of the text; capacity >= length+1 succeeds with length+1 reported; smaller capacities give the too-long code, charsWritten 0, an empty string iff capacity >= 1; every write lies inside [0, capacity). Tied to src/UriRecompose.c by running all capacities from -1 to length+2 on parsed and raw objects, guard zones and ASan exact-size buffers.",
         TB + " Partial in one respect: a real write past the buffer is runtime behaviour, observed by guard zones / ASan.", "5 C05"),
 "C06": ("Coq proof (segment-stack dot removal proved equal to the RFC 3986 5.2.4 string loop; merge lemma; five branches of 5.2.2) + small-scope exhaustive correspondence and RFC oracle",
         "Theorems for all well-formed objects: the five components of the result of resolution equal guard_slashes(transform) of RFC 3986 5.2.2 with 5.2.3 merge and kind-preserving 5.2.4 removal, outside one corner where the property's two clauses cannot both be met (shown inhabited and necessary); relative base rejected; identical-scheme option; authority copied field by field; text theorem for hosts without IP data. Tied to src/UriResolve.c and src/UriCommon.c by all (reference, base) pairs over small-scope path alphabets x authority/scheme/query variants, both options, with the RFC text oracle evaluated on the implementation's results.",
         TB + " Well-formedness of parsed objects (wf) is a hypothesis of the resolution theorem; it is checked on a small scope inside Coq and by the parser correspondence, not yet proved from Model/Parse.v.", "5 C06"),
 "C08": ("Coq proof (percent-encoding engine = specification; exact mask query; mask exactness and sufficiency; idempotence outside relative-path references, refuted inside) + 64-mask correspondence",
         "Theorems for all objects / all pct-well-formed texts: fix_pct equals the specification, never lengthens, the mask query is exact for percent-encodings and case; every mask changes exactly the selected components to their full normal form; the reported mask is sufficient and zero means normal; idempotence for non-relative references, with the relative-reference counterexample proved (known finding D7). Tied to src/UriNormalize.c by all 64 masks on borrowed and owned objects over case/percent/dot alphabets with the text-level RFC 6.2.2 oracle.",
         TB + " Known findings D7a-c and D14 (relative-path references; missing guard) are carved out of the positive theorems and suppressed by shape in the oracle.", "5 C08"),
 "C09": ("Coq proof (relative-mode dot removal followed by absolute-mode removal on top of any base stack equals removal of the merged path; exact carve-outs with refutation witnesses) + small-scope exhaustive correspondence of both pipelines",
         "Theorems for all references R (percent-well-formed, no percent-encoded dot segment) and bases B: normalize(resolve(normalize R, B)) has the same components as normalize(resolve(R, B)) outside two shapes (relative reference that cancels completely, D7a; kept dot eaten by '..', D7e), each refuted with a witness and shown exact on a small scope; scheme and authority presence preserved for every mask; path kind preserved for references with neither, outside four refuted shapes (D7a,b,c, D14). Tied to the code by running both pipelines as one history per (R, B) pair on the implementation and the model over small-scope references and bases several levels deep.",
         TB + " The commutation law is stated for strict resolution (or a reference without scheme); with the identical-scheme option it is refuted in the Props file (inherent to the option).", "5 C09"),
 "C10": ("Coq proof (induction over the common prefix; resolving (..)^k ++ rest against the base directory) for the round trip under an explicit sufficient condition, full statement refuted with the listed witnesses + small-scope exhaustive correspondence of create-reference/resolve histories",
         "Theorems: both error codes; when schemes differ the reference is the source; scheme/authority omission rules (full authority incl. user info and port); domain-root mode yields an absolute path; round trip resolve(create(S,B),B) = S for walk_ok pairs and, more generally, for parser-like objects outside c10_failing_shape; the full statement is refuted by the five open witnesses D8a,b,c,d,f and by the dotted-base witness D8i. Tied to src/UriShorten.c by (S, B, mode) triples over small-scope paths, authorities differing in one byte, dotted bases; a failing triple is attributed to a listed finding only if the frozen model fails on it in the same way and its root-cause class is listed.",
         TB + " Partial with respect to the property's unconditional wording: the open findings D8a-d,f,i are genuine violations of the round trip on the unchanged tree.", "5 C10"),
 "C11": ("Coq proof (uriEqualsUri characterised by a key function; injective on NUL-free texts) + all-pairs correspondence",
         "Theorems: equality holds iff all components are identical (IP hosts by value, absent never equal to empty) for NUL-free texts; reflexive, symmetric, transitive for all values incl. NULL; identical components give identical text. Tied to src/UriCompare.c by all ordered pairs over a pool of raw objects differing in one component and parsed texts, plus pairs of library-produced objects compared with their recomposed texts. The converse text direction is checked on library-produced objects at run time (known finding D6).",
         TB, "5 C11"),
 "C12": ("Coq proof (erasure of the memory tier onto the pure tier; block invariant through the make-owner and normalization engines) + provenance correspondence (source buffers overwritten and released, results re-read)",
         "Theorems (fault-free plan, every input): the memory-tier parser, resolution and reference creation erase to the pure-tier functions and produce borrowed objects without text blocks; make-owner and normalization with a non-zero mask of a borrowed object yield an object that owns every present non-empty text in pairwise distinct blocks all handed out during the call (none live before), with the same value as the pure tier computes and the same recomposed text for make-owner; an owned object is normalized in place within its own blocks; mask 0 and make-owner of an owned object are no-ops. 'The source text is never written' and 'read-only arguments are unchanged' hold by construction of the model (inputs are values) and are observed on the implementation: the check poisons and frees the source after the call and compares.",
         TB + " Partial: writes into caller memory are runtime behaviour (observed, ASan); distinctness is stated for text blocks, not for nodes and address blocks.", "5 C12"),
 "C13": ("Coq proof (ledger invariant [owns]/[balanced] by induction over each engine and over arbitrary operation histories) on the memory tier of the model + allocation-trace correspondence + libc interposition run",
         "Theorems for every text/object, every well-formed ledger state, every fault plan and unbounded sizes: free-members releases exactly the object's blocks, each live, and is idempotent; parse, make-owner, normalize (any mask, borrowed or owned), resolve and create-reference leave the ledger equal to 'blocks of the result + what was there', with no bad release; any history of these steps over a store of objects from the empty ledger stays balanced and ends with no live block once every object is released. Tied to the code by comparing complete allocation traces (request sizes in characters, order, releases) of model and implementation for every call. The clauses 'nothing bypasses the manager' and 'incomplete manager rejected first' are observed on the implementation (interposed libc allocator, pool manager) and not theorems; the three query functions have no memory-tier model yet (history theorems carry _partial).",
         TB + " The ledger model has one allocator by construction; block contents are not modelled.", "5 C13"),
 "C14": ("Coq proof (same ledger development: out-of-memory iff a request was refused, clean state after the caller's cleanup, fault transparency) + fault-injection correspondence at every position k in both modes",
         "Theorems for every input, ledger state and fault plan (no hypothesis on the plan): each of parse, make-owner, normalize, resolve, create-reference returns the out-of-memory code iff a request made during the call was refused; after the caller's free-members nothing is outstanding beyond what was there, the bad-release counter is unchanged and a second cleanup is a no-op; read-only inputs keep their blocks; when no request is refused the result, ledger and trace equal those of the fault-free run. normalize on a borrowed object needs the object to be [sane] (scheme / IPvFuture text not present-but-empty): parsed objects are, every operation keeps it, and without it the statement is refuted (hand-built object, reproduced on the code; see DESIGN.md). Tied to the code by injecting a failure at every k (fail-once and fail-from) into every call and comparing return code, resulting object, trace and leftover blocks; ASan flavours watch for touched released memory. Dissect/compose query are checked on the implementation only.",
         TB + " Reads and writes of block contents are not modelled ('no released memory is touched' rests on ASan runs plus [owns] of the object left behind).", "5 C14"),
 "C15": ("Coq proof (refinement of an ideal allocator by simulation, induction over operation histories, size_t arithmetic mod 2^64) + history correspondence against the real uriCompleteMemoryManager",
         "Theorems for every finite history of malloc/calloc/realloc/reallocarray/free with arbitrary size_t arguments and any backend failure plan: the decorated manager refines the ideal allocator; every backend block is released exactly once with the backend's own pointer; nothing stays allocated once the caller freed everything. Tied to src/UriMemory.c by random and enumerated histories over a logging, failure-injecting backend.",
         TB, "5 C15"),
 "C19": ("Coq proof (allocation requests of make-owner and normalization are a plan counted in characters, mapped to bytes by the character size only) + every check runs the char and wchar_t builds against the one model",
         "The model is written once over code points, so equality of codes, components, texts, offsets, counts and sizes between the two APIs is true of the model by construction; what ties both C builds to it is that this check (and every other one) runs the narrow and the wide build, plain and under ASan with exact-size buffers, on the same requests and compares all outputs, error offsets and required sizes field by field, over texts that include equal-length components differing late and code points above 255 for the wide build. Theorems: for the only model functions that mention sizeof(URI_CHAR), every request of make-owner / normalization is length*csize for a text or a structure size independent of csize; the request plan is a function of mask and value only; two character sizes give the same return code, value and trace in characters.",
         TB + " Partial by nature: identity of the two builds is established by the differential run, the theorems pin the characters-not-bytes contract.", "5 C19"),
 "C20": ("Coq proof (schedule independence and race freedom of footprint-disciplined programs, induction over the schedule) + symbol-table scan, thread digests and ThreadSanitizer on the freshly built library",
         "Theorems for every program, store and schedule: if each step changes only locations its thread owns and depends only on those and on shared read-only ones, every interleaving gives each thread exactly its solo-run view, shared inputs never change and no location is accessed by two threads with a writer among them. Partial by nature: that the C functions are disciplined is observed, not proved: writable symbols of the built objects (known finding D11: defaultMemoryManager), 8-16 threads sharing a base URI, a query list and the input strings with per-thread digests equal to the single-threaded run, the same under ThreadSanitizer.",
         TB + " The model's operations are Gallina functions of their arguments, so they have no hidden state by construction; data races and writable globals are properties of the compiled code.", "5 C20"),
 "C16": ("Coq proof (structural induction with the prevWasCr state; finite sweeps for hex helpers; cursor-level refinement for in-place unescaping) + exhaustive short-string correspondence",
         "Theorems for all texts: output alphabet, 3x/6x bound, unescape(escape x) = x (CRLF-normalised if requested) for all x over 1..255, unescape never lengthens, equals the tokenising specification, and the cursor-level in-place loop refines the pure function without writing past the terminator. Tied to src/UriEscape.c by exhaustive short strings, token sequences and random long strings x all flags on char/wchar_t, plain/ASan.",
         TB + " Partial in one respect: an actual write past the caller's buffer is runtime behaviour (ASan exact-size buffers, canaries).", "5 C16"),
 "C17": ("Coq proof (join/split inverse by induction over the list; size arithmetic in Z with INT_MAX) + small-scope exhaustive correspondence incl. near-INT_MAX lists",
         "Theorems for all lists over 1..255: dissect(compose l) = l without vanishing items; composed text is query-legal; no store at or beyond maxChars; chars-required is sufficient; sizes are refused rather than wrapped. Tied to src/UriQuery.c by lists of <= 3 items over key/value alphabets x all capacities x flags, custom manager with fault injection, lists whose sizes approach INT_MAX.",
         TB, "5 C17"),
 "C18": ("Coq proof (over the escaping lemmas) + exhaustive short-name correspondence",
         "Theorems for all filenames over 1..255 in the stated classes (Unix; Windows drive-absolute, UNC with non-empty server, relative): round trip, URI-reference shape and documented forms, size bounds 7+3n+1 / 8+3n+1 / 3n+1, filename bound, short forms accepted. Tied to src/UriFile.c by exhaustive short names per class and random long names in exact-size buffers.",
         TB, "5 C18"),
}

NOT_YET = {}

def main():
    props = [json.loads(l) for l in open(os.path.join(VERIF, "properties.jsonl"))]
    checks = []
    na = []
    for p in props:
        pid = p["id"]
        if pid in CLAIMED:
            tech, text, note, ref = CLAIMED[pid]
            checks.append({
                "property_id": pid,
                "quick_cmd": "./check %s --tier quick" % pid,
                "thorough_cmd": "./check %s --tier thorough" % pid,
                "evidence_file": "evidence/%s.json" % pid,
                "replay_cmd_template": "./check %s --replay {path}" % pid,
                "engine": "coq-model-correspondence",
                "level_claimed": {"category": "proof", "text": text, "design_ref": "DESIGN.md section " + ref},
                "level_note": note,
                "technique": tech,
            })
        else:
            na.append({"property_id": pid, "reason": NOT_YET.get(pid, "not claimed yet: model and correspondence for this property are still being built (see DESIGN.md section 8); no check is registered until it is sound")})
    m = {
        "version": 1,
        "setup_cmd": "./setup.sh",
        "hooks": {"guard": "URIPARSER_VERIF", "enable": "checks compile /repo/src/*.c themselves with -DURIPARSER_VERIF (no guarded code exists in /repo: no hook was needed)",
                  "baseline_off_cmd": "cmake -G Ninja -B /repo/_build -S /repo >/dev/null && cmake --build /repo/_build >/dev/null && ctest --test-dir /repo/_build -j8 --timeout 900",
                  "source_commits": [], "add_only": True},
        "engines": [{"name": "coq-model-correspondence", "path": "check",
                     "serves_properties": sorted(CLAIMED.keys()),
                     "kind_free_text": "Coq 8.16.1 development (coq/: Spec, Model, Proofs, Props) + extracted OCaml model driver (ocaml/) + C driver built from /repo's working tree (harness/) + python orchestration (gen/)"}],
        "checks": checks,
        "not_applicable": na,
        "notes": "Technique: machine-checked proof in Coq about a hand-written executable model; the model is tied to /repo on every run by a correspondence check (extracted model vs implementation on the same inputs). See DESIGN.md.",
    }
    with open(os.path.join(VERIF, "MANIFEST.json"), "w") as f:
        json.dump(m, f, indent=1)
    print("MANIFEST.json: %d checks, %d not claimed" % (len(checks), len(na)))

if __name__ == "__main__":
    main()
