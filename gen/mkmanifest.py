#!/usr/bin/env python3
"""Writes MANIFEST.json from the table below (keeps it schema-valid at all times)."""
import json, os
VERIF = os.path.dirname(os.path.dirname(os.path.abspath(__file__)))

# pid -> (technique, level text, level note, design ref)
CLAIMED = {
 "C16": ("Coq proof (structural induction with the prevWasCr state; finite sweeps for hex helpers) on a hand-written model + extracted-model/implementation correspondence",
         "Theorems about Model/Escape.v for all texts of any length: output alphabet, 3x/6x bound, unescape(escape x) = x (CRLF-normalised if requested) for all x over 1..255; the model is tied to src/UriEscape.c by running extracted model and implementation (char and wchar_t, plain and ASan) on exhaustive short strings, token sequences and random long strings, and the tokenising specification is evaluated on the implementation's own outputs.",
         "Trusted: Coq kernel, extraction (ExtrOcamlBasic), OCaml glue, C harness, ASan. Partial in one respect: an actual write past the caller's buffer is runtime behaviour, observed with exact-size buffers under ASan and canaries; the cursor-level model carries the index discipline.",
         "5 C16"),
}

NOT_YET = {}

def main():
    props = [json.loads(l) for l in open(os.path.join(VERIF, "properties.jsonl"))]
    checks = []
    na = []
    for p in props:
        pid = p["id"]
        if pid in CLAIMED:
            tech, text, note, ref = CLAIMED[pid]
            checks.append({
                "property_id": pid,
                "quick_cmd": "./check %s --tier quick" % pid,
                "thorough_cmd": "./check %s --tier thorough" % pid,
                "evidence_file": "evidence/%s.json" % pid,
                "replay_cmd_template": "./check %s --replay {path}" % pid,
                "engine": "coq-model-correspondence",
                "level_claimed": {"category": "proof", "text": text, "design_ref": "DESIGN.md section " + ref},
                "level_note": note,
                "technique": tech,
            })
        else:
            na.append({"property_id": pid, "reason": NOT_YET.get(pid, "not claimed yet: model and correspondence for this property are still being built (see DESIGN.md section 8); no check is registered until it is sound")})
    m = {
        "version": 1,
        "setup_cmd": "./setup.sh",
        "hooks": {"guard": "URIPARSER_VERIF", "enable": "checks compile /repo/src/*.c themselves with -DURIPARSER_VERIF (no guarded code exists in /repo: no hook was needed)",
                  "baseline_off_cmd": "cmake -G Ninja -B /repo/_build -S /repo >/dev/null && cmake --build /repo/_build >/dev/null && ctest --test-dir /repo/_build -j8 --timeout 900",
                  "source_commits": [], "add_only": True},
        "engines": [{"name": "coq-model-correspondence", "path": "check",
                     "serves_properties": sorted(CLAIMED.keys()),
                     "kind_free_text": "Coq 8.16.1 development (coq/: Spec, Model, Proofs, Props) + extracted OCaml model driver (ocaml/) + C driver built from /repo's working tree (harness/) + python orchestration (gen/)"}],
        "checks": checks,
        "not_applicable": na,
        "notes": "Technique: machine-checked proof in Coq about a hand-written executable model; the model is tied to /repo on every run by a correspondence check (extracted model vs implementation on the same inputs). See DESIGN.md.",
    }
    with open(os.path.join(VERIF, "MANIFEST.json"), "w") as f:
        json.dump(m, f, indent=1)
    print("MANIFEST.json: %d checks, %d not claimed" % (len(checks), len(na)))

if __name__ == "__main__":
    main()
