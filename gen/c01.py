"""C01 — the parser accepts exactly the RFC 3986 URI-reference language; error position."""
import json, os
import lib, parsesuite
from lib import enc, dec, show

PID = "C01"
TERMINATED = (1, 2, 4, 6)
NOEP = (6, 7, 8)        # entry points called with the optional errorPos output NULL

def until_nul(f):
    d = dec(f) or []
    if 0 in d: d = d[:d.index(0)]
    return enc(d)

def build_inputs(chk, mdl):
    tier = chk.tier
    nstates, suite = parsesuite.automaton_suite(mdl, 0 if tier == "quick" else 1)
    rnd = parsesuite.random_uris(chk.rng, 6000 if tier == "quick" else 120000)
    corpus = parsesuite.repo_corpus()
    narrow = sorted(set(suite + rnd + corpus + parsesuite.long_texts()))
    wide = set(parsesuite.widen(chk.rng, f) for f in chk.rng.sample(narrow, min(len(narrow), 4000 if tier == "quick" else 40000)))
    # systematic aliases: every position of every short suite string of each accepting control state replaced by code point + 256
    for f in chk.rng.sample(suite, min(len(suite), 600 if tier == "quick" else 6000)):
        wide.update(parsesuite.widen_all(f, 24))
    # ... and after the access string of EVERY control state: each class representative + 256 / + 65536, with the completion the
    # valid character would have had (only the strings that contain such a code point: the access strings themselves are narrow)
    _, alias = parsesuite.automaton_suite(mdl, 2)
    wide.update(f for f in alias if any(c > 255 for c in (dec(f) or [])))
    wide = sorted(wide)
    return nstates, suite, rnd, corpus, narrow, wide

def pair_triple_accepted(mdl):
    """the texts of the pair and triple suites (every state outside the IPv6 scanner followed by two / three class representatives and
    the accepting completion) that the model accepts: the inputs on which components and recomposition can be compared"""
    strs = sorted(set(parsesuite.two_step_suite(mdl, 0, 0) + parsesuite.two_step_suite(mdl, -1, 0)))
    outs = lib.run_lines(mdl, ["parse %s 3" % f for f in strs])
    return [f for f, o in zip(strs, outs) if o.startswith("parse 0 ")]

def full_alphabet_suite(chk, mdl, have):
    """quick tier only: the same suite with EVERY ASCII character (and 128, 200, 255) after every access string, so that a single
    character handled differently from the rest of its class (a dropped or misplaced case label) cannot hide behind the
    one-representative-per-class suite; run on one entry point"""
    have = set(have)
    if chk.tier != "quick":
        # thorough: the two-step suite (state x every character x every class representative), every second string
        return [f for f in sorted(set(parsesuite.two_step_suite(mdl, 2, chk.seed % 2) + parsesuite.two_step_suite(mdl, 0, 0) + parsesuite.two_step_suite(mdl, -1, 0))) if f not in have]
    _, full = parsesuite.automaton_suite(mdl, 1)
    two = parsesuite.two_step_suite(mdl, 16, chk.seed % 16)
    # every pair of consecutive cases of every rule function outside the IPv6 scanner (two call sites that each look fine alone:
    # a ':' case that prepares what the DIGIT-then-'%' cases of the next function rely on)
    pairs = parsesuite.two_step_suite(mdl, 0, 0)
    # ... and every triple: a state is then also entered through each of its predecessors (the C parser has several functions and
    # call sites where the model has one state), e.g. "//0:" + "0" + "%" + completion
    pairs += parsesuite.two_step_suite(mdl, -1, 0)
    return [f for f in sorted(set(full + two + pairs)) if f not in have]

def search_failing_input(chk, exes, mdl, corr_breaks, narrow, model_cache):
    rng = chk.rng
    tails = set()
    for f in narrow:
        if not model_cache.get("parse %s 3" % f, "").startswith("parse 0"): continue
        d = dec(f) or []
        for k in range(len(d)):
            if len(d) - k <= 12: tails.add(tuple(d[k:]))
    tails = sorted(tails)
    if len(tails) > 4000: tails = rng.sample(tails, 4000)
    tails += [tuple(ord(c) for c in t) for t in (".2.3.4]", ".2.3.4]/", "1.2.3.4]", ":1.2.3.4]", "]", "]:8", "::]", ":]", "%41", "@h", ":8", "/", "?", "#")]
    seen = set(); cands = []
    for rq, fl, o, m in corr_breaks[:400]:
        f = rq.split()
        if f[1] in seen or len(seen) >= 40: continue
        seen.add(f[1])
        d = dec(f[1]) or []
        if fl.startswith("A") and any(c > 255 for c in d): continue
        for cut in (0, 1, 2):
            pre = d[:len(d) - cut] if cut <= len(d) else []
            for t in tails: cands.append((fl, enc(pre + list(t))))
    by_fl = {}
    for fl, f in cands: by_fl.setdefault(fl, set()).add(f)
    for fl, fs in by_fl.items():
        fs = sorted(fs)
        reqs = ["parse %s 3" % f for f in fs]
        impl = lib.run_lines(exes[fl], reqs)
        oreq = ["spec_uri %s %s" % (f, (o.split()[2] if len(o.split()) > 2 else "null")) for f, o in zip(fs, impl)]
        spec = lib.run_lines(mdl, oreq)
        chk.cov["evaluations"] += len(reqs)
        for rq, o, spl in zip(reqs, impl, spec):
            of = o.split(); sp = spl.split()
            if len(of) < 3 or len(sp) < 3: continue
            bad = None
            if sp[0] == "1" and of[1] != "0": bad = "a valid URI reference is rejected (rc=%s)" % of[1]
            elif sp[0] != "1" and of[1] == "0": bad = "an invalid text is accepted"
            elif sp[0] != "1" and of[1] == "1" and of[2] != "null" and sp[2] != "1": bad = "error position %s is not the first dead character %s (nor inside the same IP literal)" % (of[2], sp[1])
            if bad: return rq, fl, o, sp, bad
    return None

def check_long(chk, exes):
    """Texts with a component of 32 767 .. 131 073 characters (or as many segments / query items): valid by construction, or with one
    character no rule accepts at a known place.  Judged on the implementation alone (the model's list-based parser is quadratic): return
    code, error position, and for the accepted ones the recomposed text must be the input."""
    sizes = (32768, 65536, 65537) if chk.tier == "quick" else (32767, 32768, 32769, 65535, 65536, 65537, 131073)
    cases = parsesuite.long_cases(sizes)
    # plain (-O2) builds only: the C parser is a recursive descent with one call per character, which the optimizer turns into
    # loops (sibling calls); the -O1 sanitizer builds keep the recursion and a 65 535-character component overflows their stack
    plan = {"A": (3,), "W": (5,)} if chk.tier == "quick" else {"A": (3, 2, 0, 5), "W": (3, 4, 5)}
    # the harness records every node: references with more than 70 000 segments take it minutes, not the library
    cases = [c for c in cases if c[0].count("/") <= 70000]
    n = 0
    for fl, entries in plan.items():
        for e in entries:
            reqs = ["parse %s %d" % (enc([ord(c) for c in t]), e) for t, _, _ in cases]
            impl = lib.run_lines(exes[fl], reqs, chunks=min(lib.NCPU, len(reqs)))
            chk.cov["evaluations"] += len(reqs); n += len(reqs)
            for (t, rc, pos), rq, o in zip(cases, reqs, impl):
                of = o.split()
                what = None
                if len(of) < 3 or of[0] != "parse" or o.startswith("!"): what = "malformed result / crash on a long text: " + o[:160]
                elif rc == 0 and of[1] != "0": what = "a valid URI reference with a long component is rejected (rc=%s, position %s)" % (of[1], of[2])
                elif rc == 1 and of[1] == "0": what = "an invalid long text is accepted"
                elif rc == 1 and (of[1] != "1" or of[2] != str(pos)): what = "long text: error code %s at position %s, expected the syntax code at %d" % (of[1], of[2], pos)
                if what: chk.violation(what, {"request": rq[:100] + " ... (%d characters: %s...%s)" % (len(t), t[:12], t[-12:]), "build": fl, "impl": o[:200], "entry": e})
        # recomposition of the accepted ones
        # (the recording manager of the harness is quadratic in the number of blocks: paths of more than 5000 segments are recomposed
        #  in the thorough tier only; the quick tier has them with 255 .. 1025 segments through the model-compared suites)
        good = [t for t, rc, _ in cases if rc == 0 and (chk.tier != "quick" or t.count("/") <= 5000)]
        reqs = ["makeowner P " + enc([ord(c) for c in t]) for t in good]
        impl = lib.run_lines(exes[fl], reqs, chunks=min(lib.NCPU, len(reqs)))
        chk.cov["evaluations"] += len(reqs); n += len(reqs)
        for t, rq, o in zip(good, reqs, impl):
            parts = o.split(" T=")
            want = enc([ord(c) for c in t])
            if len(parts) != 3 or not o.startswith("makeowner 0") or parts[1].split()[0] != want or parts[2].split()[0] != want:
                chk.violation("the recomposed text of a long reference is not the input (borrowed or owned copy)",
                              {"request": rq[:100] + " ... (%d characters: %s...%s)" % (len(t), t[:12], t[-12:]), "build": fl, "impl": o[:200]})
    return n

def run(chk):
    proofs = lib.check_proofs(PID)
    exes = lib.build_impl()
    mdl = lib.build_model()
    nlong = check_long(chk, exes)
    nstates, suite, rnd, corpus, narrow, wide = build_inputs(chk, mdl)
    # request sets
    all_entries = [0, 1, 2, 3, 4, 5, 6, 7, 8]
    full = full_alphabet_suite(chk, mdl, narrow)
    plan = {
        "A": [(narrow, all_entries), (full, [3])],
        "W": [(narrow, all_entries), (wide, [3, 2, 0]), (full, [3])],
        "A_asan": [(narrow, [3, 2])],
        "W_asan": [(narrow, [3, 4]), (wide, [3])],
    }
    spec_cache = {}
    model_cache = {}
    def model_lines(reqs):
        need = [r for r in reqs if r not in model_cache]
        if need:
            for r, o in zip(need, lib.run_lines(mdl, need)): model_cache[r] = o
        return [model_cache[r] for r in reqs]
    nontrivial = set(); accepted = 0; rejected = 0; inlit = 0
    corr_breaks = []; oracle_fail = 0
    for fl, parts in plan.items():
        reqs = []
        for strs, entries in parts:
            for e in entries:
                reqs += ["parse %s %d" % (f, e) for f in strs]
        impl = lib.run_lines(exes[fl], reqs)
        model = model_lines(reqs)
        chk.cov["evaluations"] += len(reqs)
        chk.cov["traces_validated_against_impl"] += len(reqs)
        # oracle requests: effective text + reported position
        oreq = []
        for rq, o in zip(reqs, impl):
            f = rq.split(); of = o.split()
            eff = until_nul(f[1]) if int(f[2]) in TERMINATED else f[1]
            pos = of[2] if len(of) > 2 and of[2] != "nullarg" else "null"
            oreq.append("spec_uri %s %s" % (eff, pos))
        need = sorted(set(r for r in oreq if r not in spec_cache))
        for r, o in zip(need, lib.run_lines(mdl, need)): spec_cache[r] = o
        for rq, o, m, orq in zip(reqs, impl, model, oreq):
            of = o.split(); mf = m.split()
            sp = spec_cache[orq].split()   # matches, first_dead, errpos_ok
            bad = None
            if len(of) < 3 or of[0] != "parse" or o.startswith("!"):
                bad = "malformed result / crash: " + o[:200]
            elif sp[0] == "1":
                if of[1] != "0": bad = "a valid URI reference is rejected (rc=%s)" % of[1]
            else:
                if of[1] == "0": bad = "an invalid text is accepted"
                elif of[1] != "1": bad = "rejected with code %s instead of URI_ERROR_SYNTAX" % of[1]
                elif int(rq.split()[2]) in NOEP: pass          # no position was asked for
                elif of[2] == "null": bad = "NULL error position"
                elif sp[2] != "1": bad = "error position %s is not the first dead character %s (nor inside the same IP literal)" % (of[2], sp[1])
            if bad:
                oracle_fail += 1
                chk.violation(bad, {"request": rq, "input": show(rq.split()[1]), "build": fl, "impl": o, "model": m,
                                    "spec": {"matches": sp[0], "first_dead": sp[1]}})
            if of[:3] != mf[:3]:
                corr_breaks.append((rq, fl, o, m))
            if fl == "A":
                if sp[0] == "1": accepted += 1
                else:
                    rejected += 1
                    if len(of) > 2 and of[2] != sp[1]: inlit += 1
                nontrivial.add((rq.split()[1], sp[0], of[2] if len(of) > 2 else ""))
    if corr_breaks and oracle_fail == 0:
        # model and code disagree but no oracle failed (typically: another error position inside a literal, which the property
        # allows).  Search for an input on which the property itself fails: the disagreeing texts, cut back by up to two
        # characters, continued with tails of accepted texts.
        found = search_failing_input(chk, exes, mdl, corr_breaks, narrow, model_cache)
        if found:
            rq, fl, o, sp, bad = found
            oracle_fail += 1
            chk.violation(bad + " (found by the search that follows a broken correspondence)",
                          {"request": rq, "input": show(rq.split()[1]), "build": fl, "impl": o, "spec": {"matches": sp[0], "first_dead": sp[1]},
                           "correspondence_first_broken_on": corr_breaks[0][0]})
    if corr_breaks and oracle_fail == 0:
        rq, fl, o, m = corr_breaks[0]
        chk.violation("correspondence broken: Model/Parse.v and the implementation disagree on return code / error position (%d cases)" % len(corr_breaks),
                      {"correspondence": "Model/Parse.v (control automaton) vs src/UriParse.c", "request": rq, "build": fl, "impl": o, "model": m,
                       "theorems": ["C01_accept", "C01_errpos"]}, found_input=False)
    chk.cov["distinct_nontrivial"] = len(nontrivial)
    chk.cov["states"] = nstates
    chk.cov["rule"] = ("conformance suite from the model's control automaton (%d reachable states; access string x %s x {empty, accepting completion}), "
                       "grammar-directed URIs and single-character mutations, the repository's test strings; wide-only variants with code points >= 128; "
                       "all six entry points; distinct by (text, verdict, error position)" % (nstates, "one character per atom on all entry points, every ASCII character + 128,200,255 on the explicit-range entry point" if chk.tier == "quick" else "every ASCII character + 128,200,255"))
    chk.cov["distribution"] = {"suite": len(suite), "full_alphabet_suite": len(full), "random": len(rnd), "corpus": len(corpus), "wide_only": len(wide),
                               "accepted(A)": accepted, "rejected(A)": rejected, "position_differs_from_first_dead_inside_literal(A)": inlit}
    chk.cov["samples"] = [{"input": show(f), "model": model_cache.get("parse %s 3" % f)} for f in (narrow[len(narrow) // 3], narrow[len(narrow) // 2], narrow[-1], wide[0])]
    chk.cov["exhaustive"] = False
    chk.assumptions = ["char inputs are presented to the model as code points 0..255 (unsigned char), wchar_t inputs as their value",
                       "texts longer than INT_MAX are out of scope"]
    return chk.finish(proofs)

def replay(path):
    r = json.load(open(path))
    exes = lib.build_impl(); mdl = lib.build_model()
    rq = r.get("request")
    if not rq:
        print(json.dumps(r, indent=1)); return 0
    print("request:", rq, " input:", show(rq.split()[1]))
    print("model  :", lib.run_lines(mdl, [rq])[0])
    print("spec   :", lib.run_lines(mdl, ["spec_uri %s" % rq.split()[1]])[0], "(matches, first_dead, -)")
    for fl, exe in exes.items():
        if fl.startswith("A") and any(c > 255 for c in (dec(rq.split()[1]) or [])): continue
        print("impl %-7s:" % fl, lib.run_lines(exe, [rq])[0])
    return 0
