"""Helpers shared by gen/c17.py and gen/c18.py: builds of the qf drivers and a driver runner that
stays bounded when a (mutated) implementation crashes on very many requests."""
import os, subprocess
from concurrent.futures import ThreadPoolExecutor
import lib

def builds():
    return (lib.build_impl(driver="qf.c", tag="qf"), lib.build_model(extract="qfmodel", driver="driver_qf.ml"))

def run_lines(exe, lines, chunks=None, timeout=1800, max_restarts=12):
    """Like lib.run_lines, but iterative: after a crash the first unanswered request is marked
    '!crash ...' and the rest of the chunk is resumed in a new process; after `max_restarts`
    crashes in one chunk the remaining requests of that chunk are marked '!not-run'."""
    if not lines: return []
    chunks = chunks or min(lib.NCPU, max(1, len(lines) // 200))
    size = (len(lines) + chunks - 1) // chunks
    parts = [lines[i:i + size] for i in range(0, len(lines), size)]
    e = dict(os.environ)
    e.setdefault("ASAN_OPTIONS", "detect_leaks=0:abort_on_error=0:exitcode=99")
    e.setdefault("UBSAN_OPTIONS", "print_stacktrace=1")
    def run(part):
        res = []; restarts = 0
        while part:
            r = subprocess.run([exe], input=("\n".join(part) + "\n").encode(), stdout=subprocess.PIPE,
                               stderr=subprocess.PIPE, timeout=timeout, env=e)
            outl = r.stdout.decode("utf-8", "replace").split("\n")
            if outl and outl[-1] == "": outl.pop()
            if r.returncode == 0 and len(outl) == len(part):
                res += outl; break
            k = min(len(outl), len(part) - 1)
            res += outl[:k]
            err = r.stderr.decode("utf-8", "replace")
            res.append("!crash rc=%d %s" % (r.returncode, " ".join(err.split())[:300]))
            part = part[k + 1:]
            restarts += 1
            if restarts >= max_restarts:
                res += ["!not-run (too many crashes in this chunk)"] * len(part); break
        return res
    with ThreadPoolExecutor(len(parts)) as ex:
        outs = list(ex.map(run, parts))
    return [l for o in outs for l in o]
