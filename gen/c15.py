"""C15 — a manager completed from malloc/free alone behaves as a correct allocator.

Histories of allocator calls (see harness/alloc.c for the line protocol) are run on the
extracted model (Model/Memory.v) and on the real uriCompleteMemoryManager over a logging,
failure-injecting malloc/free backend (plain and ASan/UBSan builds).  The canonical result lines
must be identical (correspondence), and the implementation's own answers are judged by
 - the extracted specification acceptor (Spec/AllocSpec.v first_reject/accepts),
 - Memory.log_live on the implementation's backend call log (every free is of a live block's
   start, nothing released twice), the log's live set = the specification's live set = the
   backend's live set at the end (nothing leaks, nothing is lost),
 - address-level containment: every block handed out lies inside the backend block it came from,
 - overflowing element-count products: NULL, errno = ENOMEM, no backend call,
 - no backend misuse (fault flag), guard bytes intact, no sanitizer report.
Huge sizes are never really allocated: the harness backend refuses requests above its cap
(<= 1 MiB) and the model's backend has the same rule."""
import itertools, json, os
import lib

PID = "C15"
SIZE_MAX = 2**64 - 1
SIZES = [0, 1, 7, 8, 9, 0x1000, 2**63, SIZE_MAX - 8, SIZE_MAX - 7, SIZE_MAX]
# ... and sizes at which size arithmetic of a growth policy would wrap (x + x/2, 2x, x + x/4, x rounded up to a power of two)
MORE_SIZES = [2, 3, 0x10, 0x11, 0x40, 0xff8, 0xff9, 0x1001, SIZE_MAX - 9, SIZE_MAX - 15, 2**63 - 8, 2**32,
              SIZE_MAX // 3 * 2 + 1, SIZE_MAX // 3 * 2 + 2, SIZE_MAX // 3 * 2 + 9, SIZE_MAX // 3 * 2 + 64, SIZE_MAX // 3 * 2, SIZE_MAX // 3 + 1,
              2**63 + 1, 2**63 + 8, 2**63 - 1, SIZE_MAX // 5 * 4 + 1, SIZE_MAX // 5 * 4 + 17, 2**62 + 1, 2**32 + 8, 2**32 - 8]
R = 2**32
PAIRS = [(0, 0), (0, 7), (1, 0), (2, 2), (3, 5), (7, 1), (1, 9), (0x10, 0x100), (0x40, 0x40), (8, 0x201),
         (R, R), (R, R - 1), (R - 1, R + 1), (R + 1, R), (R + 1, R - 1), (R + 1, R + 1), (R - 1, R - 1),
         (2**63, 2), (2, 2**63), (2**63 - 1, 2), (2**63 + 1, 2), (2**63 + 2, 2), (2**61 + 1, 8), (2**62 + 1, 4),
         (3, 0x5555555555555556), (3, 0x5555555555555555), (0x5555555555555556, 3),
         (0, SIZE_MAX), (SIZE_MAX, 0), (1, SIZE_MAX), (SIZE_MAX, 1), (SIZE_MAX, SIZE_MAX), (SIZE_MAX, 2), (2, SIZE_MAX),
         (SIZE_MAX - 7, 1), (1, SIZE_MAX - 8), (0x1000, 1), (1, 0x1000), (2**60, 0x10), (2**60, 0x11)]
CAPS = [0x100000] * 8 + [0x1008, 0x1007, 0x10, 0x11, 0x8, 0, 0x100000000]
NSLOT = 6

def tok_m(s, n): return "m%x:%x" % (s, n)
def tok_c(s, a, b): return "c%x:%x:%x" % (s, a, b)
def tok_r(s, n): return "r%x:%x" % (s, n)
def tok_a(s, a, b): return "a%x:%x:%x" % (s, a, b)
def tok_f(s): return "f%x" % s
def tok_s(s, off, ln, byte): return "s%x:%x:%x:%x" % (s, off, ln, byte)
def tok_l(s): return "l%x" % s

def request(cap, fails, ops):
    return "hist %x %s %s" % (cap, ".".join("%x" % i for i in sorted(set(fails))) if fails else "-",
                              ",".join(ops) if ops else "-")

def random_history(rng, big):
    ops = []; fill = 1
    nops = rng.choice([4, 8, 12, 20, 40]) if not big else rng.choice([40, 80])
    sizes = SIZES + (MORE_SIZES if rng.random() < 0.5 else rng.sample(MORE_SIZES, 6)) + [rng.randint(0, 0x60)] * 3
    small = [x for x in sizes if x <= 0x1001]
    def size():
        return rng.choice(small) if rng.random() < 0.7 else rng.choice(sizes)
    def pair():
        return rng.choice(PAIRS) if rng.random() < 0.8 else (rng.randint(0, 9), rng.randint(0, 40))
    for _ in range(nops):
        s = rng.randrange(NSLOT if rng.random() < 0.6 else 3)
        k = rng.random()
        if k < 0.20: ops.append(tok_m(s, size()))
        elif k < 0.32: ops.append(tok_c(s, *pair()))
        elif k < 0.57: ops.append(tok_r(s, size()))
        elif k < 0.72: ops.append(tok_a(s, *pair()))
        elif k < 0.84: ops.append(tok_f(s))
        elif k < 0.92:
            ops.append(tok_s(s, rng.choice([0, 0, 1, 7, 8, 0x20, 0xfff]), rng.choice([1, 2, 8, 0x100000]), rng.randint(0, 255)))
            continue
        else:
            ops.append(tok_l(s)); continue
        if ops[-1][0] != 'f':
            r = rng.random()
            if r < 0.75:
                fill = fill % 250 + 1
                ops.append(tok_s(s, 0, 0x100000, fill))      # write the whole block
            if r < 0.25: ops.append(tok_l(rng.randrange(NSLOT)))
    for s in range(NSLOT): ops.append(tok_l(s))
    if rng.random() < 0.7:
        order = list(range(NSLOT)); rng.shuffle(order)
        for s in order:
            ops.append(tok_f(s) if rng.random() < 0.6 else rng.choice([tok_r(s, 0), tok_a(s, 0, 7), tok_a(s, 5, 0)]))
    # failure plan: each of the first backend calls fails with some probability
    pf = rng.choice([0, 0, 0.1, 0.3, 0.6])
    fails = [i for i in range(nops + 2) if rng.random() < pf]
    if rng.random() < 0.2: fails.append(rng.randrange(0, 6))
    return request(rng.choice(CAPS), fails, ops)

ENUM_OPS = ([("m", 0, n) for n in (0, 1, 8, 9, SIZE_MAX - 7)] +
            [("c", 0, a, b) for (a, b) in ((2, 4), (0, 3), (R, R), (2**63 + 1, 2))] +
            [("r", 0, n) for n in (0, 1, 8, 9, 0x20, SIZE_MAX - 7)] +
            [("a", 0, a, b) for (a, b) in ((3, 3), (0, 5), (9, 2), (R + 1, R), (SIZE_MAX, SIZE_MAX))] +
            [("f", 0), ("m", 1, 5), ("r", 1, 0x10)])

def enum_token(o):
    return {"m": tok_m, "c": tok_c, "r": tok_r, "a": tok_a, "f": tok_f}[o[0]](*o[1:])

def enumerated(depth):
    reqs = []
    for n in range(1, depth + 1):
        for seq in itertools.product(ENUM_OPS, repeat=n):
            ops = []
            for i, o in enumerate(seq):
                ops.append(enum_token(o))
                if o[0] != "f":
                    ops.append(tok_s(o[1], 0, 0x100000, 0x10 + i)); ops.append(tok_l(o[1]))
            ops += [tok_l(0), tok_l(1), tok_f(0), tok_f(1)]
            # no failure, then a failure at each single backend-call position that can occur
            for fails in [()] + [(i,) for i in range(n)] + ([(0, 1)] if n >= 2 else []):
                reqs.append(request(0x100000, fails, ops))
    return reqs

def big_cases():
    """large blocks: growth and shrinking across several orders of magnitude (a size- or difference-dependent fast path in realloc
    must still preserve the prefix and stay inside its backend block).  Too large for the list-based model: these histories are
    judged by oracles on the implementation's own output only.  -> [(request, small size, big size)]"""
    out = []
    BIG = [0x300000, 0x200064, 0x100007, 0x100000, 0xfffff, 0x10001, 0x2000]
    SMALL = [1, 0x40, 0x1000, 0xffff8]
    for b in BIG:
        for sm in SMALL:
            if sm >= b: continue
            for via in ("r", "a"):
                shrink = tok_r(0, sm) if via == "r" else tok_a(0, sm, 1)
                grow = tok_r(0, b) if via == "r" else tok_a(0, b // 8, 8)
                ops = [tok_m(0, b), tok_s(0, 0, b, 0x31), tok_m(1, 0x20), tok_s(1, 0, 0x20, 0x32), shrink, tok_l(0), tok_l(1),
                       tok_m(2, 0x30), tok_s(2, 0, 0x30, 0x33), grow, tok_l(0), tok_l(1), tok_l(2), tok_f(0), tok_f(1), tok_f(2)]
                out.append(("big" + request(0x100000000, (), ops), sm, b if via == "r" else (b // 8) * 8))
    return out

def check_big(chk, exes):
    cases = big_cases()
    for fl, exe in exes.items():
        impl = lib.run_lines(exe, [c[0] for c in cases])
        chk.cov["evaluations"] += len(cases)
        for (rq, sm, b), o in zip(cases, impl):
            pr = split_result(o[3:] if o.startswith("big") else o)
            if pr is None:
                chk.violation("implementation crashed or gave no result on a large-block history (%s build): %s" % (fl, o[:200]), {"request": rq, "impl": o[:2000], "build": fl}); continue
            ops_res, end = pr
            why = None
            if end.get("fault") != "0": why = "the backend was handed a pointer that is not the start of a live block"
            elif end.get("guard") != "1": why = "bytes outside a backend block were written"
            elif end.get("live") not in ("", "-", "0", None) and end.get("live") != "": why = None
            data = [r.split("/")[4] if r != "skip" and len(r.split("/")) >= 5 else None for r in ops_res]
            def rle_prefix(d, byte, n):   # does the run-length encoded data begin with n bytes of value byte?
                if d in (None, "-", "_"): return n == 0
                first = d.split(".")[0].split("*"); return int(first[0], 16) == byte and int(first[1], 16) >= n
            if why is None and len(data) >= 13:
                if not rle_prefix(data[5], 0x31, sm): why = "shrinking a block of %x bytes to %x lost its content" % (b, sm)
                elif data[6] != "32*20": why = "a neighbouring block changed while another one was shrunk"
                elif not rle_prefix(data[10], 0x31, sm): why = "growing a block from %x to %x bytes lost the common prefix" % (sm, b)
                elif data[11] != "32*20" or data[12] != "33*30": why = "a neighbouring block changed while another one was grown"
            if why: chk.violation(why + " (large-block history)", {"request": rq, "impl": o[:2000], "build": fl})
    return len(cases)

def gen_cases(chk):
    tier = chk.tier; rng = chk.rng
    reqs = enumerated(2 if tier == "quick" else 3)
    nrand = 6000 if tier == "quick" else 300000
    for i in range(nrand):
        reqs.append(random_history(rng, big=(i % 50 == 0)))
    return reqs

# ------------------------------------------------------------------------------- result parsing
def split_result(line):
    """-> (list of op results, end dict) or None when the line is not a well-formed hist result"""
    if not line.startswith("hist "): return None
    body = line[5:]
    i = body.rfind("end live=")
    if i < 0: return None
    ops = body[:i].rstrip(";")
    end = {}
    for kv in body[i + 4:].split():
        k, _, v = kv.partition("="); end[k] = v
    return (ops.split(";") if ops else []), end

def parse_tok(t):
    f = t[1:].split(":")
    return t[0], int(f[0], 16), [int(x, 16) for x in f[1:]]

def address_checks(rq, ops_res):
    """containment of every returned block in its backend block; overflow => NULL/ENOMEM/no backend call"""
    toks = rq.split()[3]
    toks = [] if toks == "-" else toks.split(",")
    bsize = {}
    problems = []
    for k, (t, r) in enumerate(zip(toks, ops_res)):
        if r == "skip": continue
        f = r.split("/")
        if len(f) != 5: problems.append((k, "malformed result " + r)); continue
        kind, slot, args = parse_tok(t)
        if f[2] != "_":
            for c in f[2].split("."):
                if c[0] == "m" and not c.endswith(":N"):
                    sz, b = c[1:].split(":"); bsize[b] = int(sz, 16)
        if kind in "mcra":
            total = args[0] if kind in "mr" else args[0] * args[1]
            if kind in "ca" and total > SIZE_MAX:
                if not (f[0] == "N" and f[1] == "e12" and f[2] == "_"):
                    problems.append((k, "overflowing product not refused with NULL/ENOMEM before any backend call: " + r))
                continue
            if f[0] == "N": continue
            if "+" not in f[0]:
                problems.append((k, "returned pointer is not inside a live backend block: " + f[0])); continue
            b, off = f[0].split("+"); off = int(off, 16)
            if b not in bsize or off + total > bsize[b]:
                problems.append((k, "block of %x bytes at %s does not fit its backend block (%s bytes)" % (total, f[0], "%x" % bsize.get(b, -1))))
    return problems

def run(chk):
    proofs = lib.check_proofs(PID)
    exes = lib.build_impl(flavours=("A", "A_asan"), driver="alloc.c", tag="alloc")
    mdl = lib.build_model(extract="c15model", driver="driver_c15.ml")
    reqs = gen_cases(chk)
    extra = ["cmm %d %d %d %d" % t for t in itertools.product((0, 1), repeat=4)]
    model = lib.run_lines(mdl, reqs + extra)
    dist = {"histories": len(reqs), "calls": 0, "malloc": 0, "calloc": 0, "realloc": 0, "reallocarray": 0, "free": 0,
            "store": 0, "load": 0, "overflow_refused": 0, "backend_refusals": 0, "header_overflow_refused": 0,
            "realloc_moved": 0, "realloc_in_place": 0, "freed_by_convention": 0, "failure_with_live_block": 0,
            "histories_ending_empty": 0, "histories_ending_live": 0}
    nontrivial = set()
    mism = []
    for fl, exe in exes.items():
        impl = lib.run_lines(exe, reqs + extra + ["selftest"])
        chk.cov["evaluations"] += len(reqs) + len(extra) + 1
        chk.cov["traces_validated_against_impl"] += len(reqs)
        if impl[-1] != "selftest 0 live=0 fault=0":
            chk.violation("uriTestMemoryManager on the completed manager: " + impl[-1], {"request": "selftest", "impl": impl[-1], "build": fl})
        if "asan" not in fl:
            # sizes that do not fit 32 bits: blocks of 4 GiB and more from a lazy backend (only a few pages are ever touched)
            hg = lib.run_lines(exe, ["huge"], chunks=1)[0]; chk.cov["evaluations"] += 1
            if hg == "huge nomem": lib.log("C15: blocks of 4 GiB could not be obtained on the %s build; scenario skipped" % fl)
            elif hg != "huge ok":
                chk.violation("blocks of 4 GiB and more through the completed manager (malloc, shrink, grow back, free): " + hg[:200], {"request": "huge", "impl": hg, "build": fl})
        # ---- property oracles on the implementation's own outputs
        spec_rq = []; spec_ix = []
        for i, (rq, o) in enumerate(zip(reqs, impl)):
            pr = split_result(o)
            if pr is None:
                chk.violation("implementation crashed or gave no result (%s build): %s" % (fl, o[:300]), {"request": rq, "impl": o, "build": fl}); continue
            ops_res, end = pr
            if end.get("fault") != "0":
                chk.violation("the backend was handed a pointer that is not the start of a live block", {"request": rq, "impl": o, "build": fl})
            if end.get("guard") != "1":
                chk.violation("bytes outside a backend block were written", {"request": rq, "impl": o, "build": fl})
            for k, why in address_checks(rq, ops_res)[:1]:
                chk.violation(why, {"request": rq, "impl": o, "build": fl, "call": k + 1})
            spec_rq.append("spec %s %s" % (rq.split()[3], ";".join(ops_res) if ops_res else "-")); spec_ix.append((i, end))
        verdicts = lib.run_lines(mdl, spec_rq)
        for (i, end), v in zip(spec_ix, verdicts):
            rq = reqs[i]; o = impl[i]
            f = v.split()
            if len(f) < 2 or f[0] != "spec" or f[1] != "ok":
                chk.violation("the implementation's answers are not those of a correct allocator: " + v, {"request": rq, "impl": o, "spec": v, "build": fl}); continue
            kv = dict(x.split("=") for x in f[2:])
            if kv.get("log") != "ok":
                chk.violation("backend call log: a block released twice / not by the pointer the backend returned", {"request": rq, "impl": o, "spec": v, "build": fl})
            elif not (kv["slive"] == kv["llive"] == end.get("live")):
                chk.violation("backend blocks and the caller's blocks do not match (leak or lost block): caller %s, log %s, backend %s"
                              % (kv["slive"], kv["llive"], end.get("live")), {"request": rq, "impl": o, "spec": v, "build": fl})
        # ---- correspondence
        for i, (a, m) in enumerate(zip(impl[:len(reqs) + len(extra)], model)):
            if a != m: mism.append((i, fl, a))
    seen = set()
    for i, fl, a in mism:
        if i in seen: continue
        seen.add(i)
        if len(seen) > 30: break
        rq = (reqs + extra)[i]
        chk.violation("correspondence broken: model and implementation disagree on a history",
                      {"correspondence": "Model/Memory.v vs src/UriMemory.c", "request": rq, "model": model[i],
                       "impl": {f: x for (j, f, x) in mism if j == i}}, found_input=False)
    # ---- coverage accounting (on the model's results = the implementation's, when no mismatch)
    for rq, m in zip(reqs, model):
        pr = split_result(m)
        if pr is None: continue
        ops_res, end = pr
        toks = rq.split()[3]; toks = [] if toks == "-" else toks.split(",")
        held = {}
        interesting = False
        for t, r in zip(toks, ops_res):
            if r == "skip": continue
            kind, slot, args = parse_tok(t); f = r.split("/")
            dist["calls"] += 1
            dist[{"m": "malloc", "c": "calloc", "r": "realloc", "a": "reallocarray", "f": "free", "s": "store", "l": "load"}[kind]] += 1
            if kind in "ca" and args[0] * args[1] > SIZE_MAX: dist["overflow_refused"] += 1; interesting = True
            if ":N" in f[2]: dist["backend_refusals"] += 1; interesting = True
            if kind in "mcra" and f[0] == "N" and f[1] == "e12" and f[2] == "_" and not (kind in "ca" and args[0] * args[1] > SIZE_MAX):
                dist["header_overflow_refused"] += 1
            if kind in "ra":
                old = held.get(slot)
                if f[0] != "N" and old is not None:
                    if f[0] == old: dist["realloc_in_place"] += 1
                    else: dist["realloc_moved"] += 1; interesting = True
                if f[0] == "N" and old is not None:
                    total = args[0] if kind == "r" else args[0] * args[1]
                    if total == 0: dist["freed_by_convention"] += 1; held.pop(slot, None)
                    else: dist["failure_with_live_block"] += 1; interesting = True
            if kind in "mcra" and f[0] != "N": held[slot] = f[0]
            if kind == "f": held.pop(slot, None)
        if end.get("live") == "_": dist["histories_ending_empty"] += 1
        else: dist["histories_ending_live"] += 1
        if interesting: nontrivial.add(rq)
    chk.cov["distinct_nontrivial"] = len(nontrivial)
    nbig = check_big(chk, exes)
    chk.cov["rule"] = ("%d large-block histories (blocks up to 3 MiB shrunk and grown through realloc and reallocarray, judged on the implementation only); " % nbig +
                       "all call sequences of length <= %d over a %d-call alphabet (sizes 0,1,8,9,SIZE_MAX-7; overflowing and "
                       "wrapping products; free; two slots) x {no backend failure, failure at each position}, plus random histories of "
                       "4..80 calls on <= 6 live blocks with sizes {0,1,7,8,9,4096,2^63,SIZE_MAX-8,SIZE_MAX-7,SIZE_MAX,..}, element-count "
                       "pairs around 2^32, random backend failure plans and caps; a history is non-trivial when a realloc moved a block, "
                       "a product overflowed, or the backend refused a request; distinct by request line; each history runs on a plain "
                       "and an ASan/UBSan build" % (2 if chk.tier == "quick" else 3, len(ENUM_OPS)))
    chk.cov["distribution"] = dist
    pick = [0, len(reqs) // 3, len(reqs) - 1]
    chk.cov["samples"] = [{"request": reqs[i], "model": model[i][:400]} for i in pick]
    chk.cov["exhaustive"] = False
    chk.assumptions = ["the backend is a correct malloc/free pair that does not touch errno and fills fresh memory with 0xA5; "
                       "requests above the cap (<= 1 MiB) are refused by the harness backend and by the model's backend alike",
                       "sizeof(size_t) = 8, little-endian (the header value is compared in every result line)",
                       "block-structured memory: disjointness of live blocks = distinct backend blocks + containment, "
                       "checked with real addresses in the harness"]
    return chk.finish(proofs)

def replay(path):
    r = json.load(open(path))
    exes = lib.build_impl(flavours=("A", "A_asan"), driver="alloc.c", tag="alloc")
    mdl = lib.build_model(extract="c15model", driver="driver_c15.ml")
    rq = r.get("request")
    if not rq:
        print(json.dumps(r, indent=1)); return 0
    print("request:", rq)
    m = lib.run_lines(mdl, [rq])[0] if rq != "selftest" else "(uriTestMemoryManager is not modelled; expected: selftest 0 live=0 fault=0)"
    print("model       :", m)
    for fl, exe in exes.items():
        a = lib.run_lines(exe, [rq])[0]
        print("impl %-7s:" % fl, a)
        pr = split_result(a)
        if pr and rq.startswith("hist"):
            ops_res, end = pr
            print("  spec      :", lib.run_lines(mdl, ["spec %s %s" % (rq.split()[3], ";".join(ops_res) if ops_res else "-")])[0])
            for k, why in address_checks(rq, ops_res): print("  address   : call %d: %s" % (k + 1, why))
            mp = split_result(m)
            if mp:
                toks = rq.split()[3].split(",")
                for k, (x, y) in enumerate(zip(ops_res, mp[0])):
                    if x != y:
                        print("  first difference at call %d (%s): impl %s / model %s" % (k + 1, toks[k] if k < len(toks) else "?", x, y)); break
    return 0
