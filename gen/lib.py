"""Shared machinery of the checks: builds (implementation from /repo's working tree, model
from the Coq development), driver I/O, proof-obligation re-validation, evidence, verdicts."""
import contextlib, fcntl, hashlib, json, os, subprocess, sys, threading, time, shutil, random, re
from concurrent.futures import ThreadPoolExecutor

VERIF = os.path.dirname(os.path.dirname(os.path.abspath(__file__)))
REPO = os.environ.get("VERIF_REPO", "/repo")
BUILD = os.path.join(VERIF, "build")
COQ = os.path.join(VERIF, "coq")
NCPU = os.cpu_count() or 4

def log(*a):
    print(*a, file=sys.stderr, flush=True)

def sh(cmd, cwd=None, timeout=None, check=True, env=None):
    r = subprocess.run(cmd, cwd=cwd, shell=isinstance(cmd, str), stdout=subprocess.PIPE,
                       stderr=subprocess.STDOUT, timeout=timeout, env=env)
    out = r.stdout.decode("utf-8", "replace")
    if check and r.returncode != 0:
        raise RuntimeError("command failed (%d): %s\n%s" % (r.returncode, cmd, out[-4000:]))
    return r.returncode, out

# ----------------------------------------------------------------------------- hashing
def tree_hash(paths):
    h = hashlib.sha256()
    for p in paths:
        if os.path.isdir(p):
            for root, dirs, files in sorted(os.walk(p)):
                dirs.sort()
                for f in sorted(files):
                    fp = os.path.join(root, f)
                    h.update(fp.encode()); h.update(b"\0")
                    with open(fp, "rb") as fh: h.update(fh.read())
        elif os.path.exists(p):
            h.update(p.encode()); h.update(b"\0")
            with open(p, "rb") as fh: h.update(fh.read())
    return h.hexdigest()[:16]

def prune(dirpath, keep):
    """keep only the most recently used `keep` sub-directories"""
    if not os.path.isdir(dirpath): return
    subs = [os.path.join(dirpath, d) for d in os.listdir(dirpath)]
    subs = [d for d in subs if os.path.isdir(d)]
    subs.sort(key=lambda d: os.path.getmtime(d), reverse=True)
    now = time.time()
    for d in subs[keep:]:
        # a directory used within the last two hours may belong to a check that is running at this moment
        if now - os.path.getmtime(d) < 7200: continue
        shutil.rmtree(d, ignore_errors=True)

# ----------------------------------------------------------------------------- implementation build
LIB_SOURCES = ["UriCommon.c", "UriCompare.c", "UriEscape.c", "UriFile.c", "UriIp4.c", "UriIp4Base.c",
               "UriMemory.c", "UriNormalize.c", "UriNormalizeBase.c", "UriParse.c", "UriParseBase.c",
               "UriQuery.c", "UriRecompose.c", "UriResolve.c", "UriShorten.c"]

FLAVOURS = {
    # name: (compiler, cflags, driver defines)
    "A":      ("gcc", ["-O2", "-g0"], []),
    "W":      ("gcc", ["-O2", "-g0"], ["-DDRV_WIDE"]),
    "A_asan": ("gcc", ["-O1", "-g", "-fsanitize=address,undefined", "-fno-sanitize-recover=all", "-fno-omit-frame-pointer"], ["-DDRV_EXACT"]),
    "W_asan": ("gcc", ["-O1", "-g", "-fsanitize=address,undefined", "-fno-sanitize-recover=all", "-fno-omit-frame-pointer"], ["-DDRV_EXACT", "-DDRV_WIDE"]),
    "A_tsan": ("gcc", ["-O1", "-g", "-fsanitize=thread", "-fno-omit-frame-pointer"], []),
    "W_tsan": ("gcc", ["-O1", "-g", "-fsanitize=thread", "-fno-omit-frame-pointer"], ["-DDRV_WIDE"]),
}

# Coverage measurement of the generators (tools/coverage.py): VERIF_COV=1 instruments the plain flavours.
COV = bool(os.environ.get("VERIF_COV"))
if COV:
    FLAVOURS["A"] = ("gcc", ["-O0", "-g", "--coverage"], [])
    FLAVOURS["W"] = ("gcc", ["-O0", "-g", "--coverage"], ["-DDRV_WIDE"])

def project_version():
    try:
        txt = open(os.path.join(REPO, "CMakeLists.txt")).read()
        m = re.search(r"VERSION\s+(\d+\.\d+\.\d+)", txt)
        return m.group(1) if m else "0.0.0"
    except OSError:
        return "0.0.0"

def build_impl(flavours=("A", "W", "A_asan", "W_asan"), extra_defines=(), driver="drv.c", tag="drv"):
    """Compile /repo/src/*.c (current working tree) and the harness driver.  Returns {flavour: exe}.
    Results are cached under build/impl/<hash of repo sources + harness>; any edit to the sources
    changes the hash, so the executables always come from the tree as it is now."""
    srcdir = os.path.join(REPO, "src"); incdir = os.path.join(REPO, "include")
    hdir = os.path.join(VERIF, "harness")
    key = tree_hash([srcdir, incdir, hdir, os.path.join(REPO, "CMakeLists.txt")]) + "-" + \
        hashlib.sha256((" ".join(extra_defines) + driver).encode()).hexdigest()[:6] + ("-cov" if COV else "")
    out = os.path.join(BUILD, "impl", key)
    os.makedirs(out, exist_ok=True)
    os.utime(out, None)
    cfg = os.path.join(out, "UriConfig.h")
    if not os.path.exists(cfg):
        with open(cfg, "w") as f:
            f.write('#if !defined(URI_CONFIG_H)\n# define URI_CONFIG_H 1\n#define PACKAGE_VERSION "%s"\n'
                    '#define HAVE_WPRINTF\n#define HAVE_REALLOCARRAY\n#endif\n' % project_version())
    jobs = []
    exes = {}
    for fl in flavours:
        cc, cflags, ddefs = FLAVOURS[fl]
        exe = os.path.join(out, "%s_%s" % (tag, fl))
        exes[fl] = exe
        if os.path.exists(exe): continue
        odir = os.path.join(out, "obj_" + fl); os.makedirs(odir, exist_ok=True)
        objs = []
        for s in LIB_SOURCES:
            o = os.path.join(odir, s[:-2] + ".o")
            objs.append(o)
            if not os.path.exists(o):
                jobs.append((fl, [cc] + cflags + ["-std=gnu99", "-DURIPARSER_VERIF", "-I", incdir, "-I", out, "-I", srcdir,
                                                 "-c", os.path.join(srcdir, s), "-o", o] + list(extra_defines)))
        exes[fl] = (exe, [cc] + cflags + ["-std=gnu99", "-D_GNU_SOURCE", "-DURIPARSER_VERIF", "-I", incdir, "-I", out, "-I", srcdir, "-I", hdir]
                    + ddefs + list(extra_defines) + [os.path.join(hdir, driver)] + objs + ["-o", exe, "-lpthread"])
    def run(job):
        fl, cmd = job
        rc, o = sh(cmd, check=False)
        return (fl, cmd, rc, o)
    with ThreadPoolExecutor(NCPU) as ex:
        for fl, cmd, rc, o in ex.map(run, jobs):
            if rc != 0:
                raise RuntimeError("implementation does not compile (%s): %s\n%s" % (fl, " ".join(cmd), o[-3000:]))
    links = [(fl, v[1]) for fl, v in exes.items() if isinstance(v, tuple)]
    with ThreadPoolExecutor(NCPU) as ex:
        for fl, cmd, rc, o in ex.map(run, links):
            if rc != 0:
                raise RuntimeError("driver does not link (%s): %s\n%s" % (fl, " ".join(cmd), o[-3000:]))
    exes = {fl: (v[0] if isinstance(v, tuple) else v) for fl, v in exes.items()}
    prune(os.path.join(BUILD, "impl"), int(os.environ.get("VERIF_KEEP", "6")))
    return exes

# ----------------------------------------------------------------------------- model build
_coq_rlock = threading.RLock()
_coq_depth = [0, None]

@contextlib.contextmanager
def coq_lock():
    """One writer at a time in coq/: several checks may run at once on different trees (tools/seedall.py,
    tools/mutcampaign.py) and each re-derives coq/Generated/SwitchTables.v from ITS tree before building."""
    with _coq_rlock:
        if _coq_depth[0] == 0:
            os.makedirs(BUILD, exist_ok=True)
            _coq_depth[1] = open(os.path.join(BUILD, ".coq.lock"), "w")
            fcntl.flock(_coq_depth[1], fcntl.LOCK_EX)
        _coq_depth[0] += 1
        try:
            yield
        finally:
            _coq_depth[0] -= 1
            if _coq_depth[0] == 0:
                fcntl.flock(_coq_depth[1], fcntl.LOCK_UN); _coq_depth[1].close(); _coq_depth[1] = None

SWITCHTABLES = os.path.join(COQ, "Generated", "SwitchTables.v")

def regen_switchtables():
    """Translate the character switches of REPO/src (the tree being checked) into coq/Generated/SwitchTables.v.
    The file is rewritten only when its content differs from what this tree yields: `make` stays a no-op on an
    unchanged tree, and a run on another tree (VERIF_REPO) cannot leave a stale file behind for the next run.
    Returns True when the file was rewritten.  Call with coq_lock() held together with the build that follows."""
    d = os.path.dirname(os.path.abspath(__file__))
    if d not in sys.path: sys.path.insert(0, d)
    import switchtables
    new = switchtables.render(os.path.join(REPO, "src"))
    try: old = open(SWITCHTABLES).read()
    except OSError: old = None
    if old == new: return False
    os.makedirs(os.path.dirname(SWITCHTABLES), exist_ok=True)
    tmp = SWITCHTABLES + ".tmp"
    with open(tmp, "w") as f: f.write(new)
    os.replace(tmp, SWITCHTABLES)
    return True

def coq_make(target=None, timeout=3600):
    with coq_lock():
        if not os.path.exists(os.path.join(COQ, "Makefile")):
            sh("coq_makefile -f _CoqProject -o Makefile", cwd=COQ)
        cmd = "timeout %d make -k -j%d %s" % (timeout, NCPU, target or "")
        return sh(cmd, cwd=COQ, check=False)

def extract_targets():
    return " ".join(sorted("Extract/" + f[:-2] + ".vo" for f in os.listdir(os.path.join(COQ, "Extract")) if f.endswith(".v")))

def build_model(extract="model", driver="driver.ml"):
    """Build the Coq development (no-op when up to date), then an OCaml driver from an extracted file.
    coq/<extract>.ml(i) is copied as model.ml(i) next to ocaml/glue.ml and ocaml/<driver>."""
    with coq_lock():
        try: regen_switchtables()
        except Exception as e: log("switch tables not regenerated: %s" % e)     # reported by check_proofs
        rc, out = coq_make()
        if rc != 0:
            # the extracted models do not depend on the tables translated from the C tree: a proof obligation about those
            # tables that no longer checks is reported by check_proofs and must not stop the run-time comparison
            rc2, out2 = coq_make(target=extract_targets())
            if rc2 != 0:
                raise RuntimeError("Coq development does not build:\n" + out[-4000:])
    srcs = [os.path.join(COQ, extract + ".ml"), os.path.join(COQ, extract + ".mli"),
            os.path.join(VERIF, "ocaml", "glue.ml"), os.path.join(VERIF, "ocaml", driver)]
    key = tree_hash(srcs)
    outd = os.path.join(BUILD, "model", extract + "-" + key)
    exe = os.path.join(outd, "mdl")
    if not os.path.exists(exe):
        os.makedirs(outd, exist_ok=True)
        shutil.copy(srcs[0], os.path.join(outd, "model.ml"))
        shutil.copy(srcs[1], os.path.join(outd, "model.mli"))
        shutil.copy(srcs[2], os.path.join(outd, "glue.ml"))
        shutil.copy(srcs[3], os.path.join(outd, "driver.ml"))
        sh(["ocamlfind", "ocamlopt", "-w", "-a", "model.mli", "model.ml", "glue.ml", "driver.ml", "-o", "mdl"], cwd=outd)
    os.utime(outd, None)
    prune(os.path.join(BUILD, "model"), 8)
    return exe

# ----------------------------------------------------------------------------- proof obligations
FORBIDDEN = re.compile(r"\b(Admitted|admit|Axiom|Axioms|Parameter|Parameters|Conjecture|Conjectures|Unset\s+Guard|bypass_check|Admit\s+Obligations|type-in-type|impredicative-set)\b")

def strip_comments(src):
    out = []; depth = 0; i = 0
    while i < len(src):
        if src.startswith("(*", i): depth += 1; i += 2; continue
        if src.startswith("*)", i) and depth > 0: depth -= 1; i += 2; continue
        if depth == 0: out.append(src[i])
        i += 1
    return "".join(out)

def scan_forbidden():
    hits = []
    for root, _, files in os.walk(COQ):
        for f in files:
            if not f.endswith(".v") and f != "_CoqProject": continue
            p = os.path.join(root, f)
            txt = open(p).read()
            if f.endswith(".v"): txt = strip_comments(txt)
            for m in FORBIDDEN.finditer(txt):
                hits.append("%s: %s" % (os.path.relpath(p, VERIF), m.group(0)))
    return hits

def coq_errors(out):
    """the error messages of a make/coqc log (file, line, message), without the progress lines"""
    keep = []; lines = out.split("\n")
    for i, l in enumerate(lines):
        if l.startswith("File ") and i + 1 < len(lines) and lines[i + 1].startswith("Error"):
            keep.append(" ".join(" ".join(lines[i:i + 5]).split()))
    return (" | ".join(keep) or out[-1500:])[:1500]

def check_proofs(pid, extra_props=()):
    """Re-validate the proof obligations of property `pid`: the development builds (full .vo),
    Props/<pid>.v is re-checked by coqc, every Theorem in it is followed by Print Assumptions.
    Returns dict(obligations, discharged, theorems, assumptions, failures)."""
    res = {"obligations": 0, "discharged": 0, "theorems": [], "assumptions": {}, "failures": []}
    forb = scan_forbidden()
    if forb:
        res["failures"].append("forbidden vernacular in the development: " + "; ".join(forb[:10]))
    with coq_lock():
        return _check_proofs_locked(pid, extra_props, res)

def _check_proofs_locked(pid, extra_props, res):
    # the tables of the character switches are re-derived from the tree that is being checked (REPO), every time
    try:
        regen_switchtables()
    except Exception as e:
        res["failures"].append("the switch tables cannot be derived from %s/src (gen/switchtables.py): %s" % (REPO, e))
    rc, out = coq_make()
    if rc != 0:
        # does what fails lie under the obligations of THIS property?  (e.g. a changed `switch` of UriParse.c breaks
        # Proofs/SwitchRefine.v: an obligation of C01, not of C16)
        mine = " ".join("Props/%s.vo" % p for p in (pid,) + tuple(extra_props))
        rc2, out2 = coq_make(target=mine)
        if rc2 != 0:
            res["failures"].append("Coq development does not build: " + coq_errors(out2))
        else:
            log("note: part of the Coq development does not build, but not what %s rests on: %s" % (pid, coq_errors(out)[:300]))
    for prop in (pid,) + tuple(extra_props):
        pf = os.path.join(COQ, "Props", prop + ".v")
        if not os.path.exists(pf):
            res["failures"].append("missing " + pf); continue
        src = strip_comments(open(pf).read())
        thms = re.findall(r"\b(?:Theorem|Corollary)\s+(\w+)", src)
        res["obligations"] += len(thms)
        res["theorems"] += thms
        t0 = time.time()
        rc, out = sh("timeout 900 coqc -q -Q . UP -w -notation-overridden Props/%s.v" % prop, cwd=COQ, check=False)
        if rc != 0:
            res["failures"].append("coqc Props/%s.v failed: %s" % (prop, out[-1500:]))
            continue
        # split the Print Assumptions output: one block per theorem, in order
        blocks = re.split(r"(?=Closed under the global context|Axioms:)", out)
        blocks = [b.strip() for b in blocks if b.strip().startswith(("Closed", "Axioms:"))]
        for i, t in enumerate(thms):
            if i < len(blocks):
                res["assumptions"][t] = " ".join(blocks[i].split())[:600]
                res["discharged"] += 1
            else:
                res["failures"].append("no Print Assumptions output for " + t)
    return res

# ----------------------------------------------------------------------------- drivers
def run_lines(exe, lines, chunks=None, timeout=1800, env=None):
    """Feed request lines to a driver (split over several processes), return the list of output lines."""
    if not lines: return []
    chunks = chunks or min(NCPU, max(1, len(lines) // 200))
    size = (len(lines) + chunks - 1) // chunks
    parts = [lines[i:i + size] for i in range(0, len(lines), size)]
    e = dict(os.environ)
    e.setdefault("ASAN_OPTIONS", "detect_leaks=0:abort_on_error=0:exitcode=99")
    e.setdefault("UBSAN_OPTIONS", "print_stacktrace=1")
    if env: e.update(env)
    def run(part, depth=0, hangs=0):
        # a chunk normally finishes in well under a minute; a driver that loops (corrupted list) is a hang
        tmo = min(timeout, 30 if hangs else 150)
        try:
            r = subprocess.run([exe], input=("\n".join(part) + "\n").encode(), stdout=subprocess.PIPE,
                               stderr=subprocess.PIPE, timeout=tmo, env=e)
            rc, so, se = r.returncode, r.stdout, r.stderr
        except subprocess.TimeoutExpired as ex:
            rc, so, se = -999, (ex.stdout or b""), b"timeout: the driver did not return (endless loop?)"
        outl = so.decode("utf-8", "replace").split("\n")
        if outl and outl[-1] == "": outl.pop()
        elif rc != 0 and outl: outl.pop()          # the driver died in the middle of a (buffered) line: that line is not an answer
        if rc != 0 or len(outl) != len(part):
            # crashed: mark the first unanswered request, then run the rest one request per process
            k = min(len(outl), len(part) - 1)
            res = outl[:k]
            err = se.decode("utf-8", "replace")
            res.append(("!crash hang " if rc == -999 else "!crash rc=%d " % rc) + " ".join(err.split())[:400])
            rest = part[k + 1:]
            if rest:
                nh = hangs + (1 if rc == -999 else 0)
                if depth >= 30 or nh >= 2: res += ["!crash not-run (too many crashes or hangs in this chunk)"] * len(rest)
                else: res += run(rest, depth + 1, nh)
            return res
        return outl
    with ThreadPoolExecutor(len(parts)) as ex:
        outs = list(ex.map(run, parts))
    return [l for o in outs for l in o]

# ----------------------------------------------------------------------------- text helpers
def enc(cps):
    if cps is None: return "-"
    if len(cps) == 0: return "_"
    return ".".join("%x" % c for c in cps)
def enc_s(s):
    return enc([ord(c) for c in s]) if s is not None else "-"
def dec(f):
    if f == "-": return None
    if f == "_": return []
    return [int(x, 16) for x in f.split(".")]
def show(f):
    """printable form of an encoded text for evidence/replays"""
    d = dec(f)
    if d is None: return None
    return "".join(chr(c) if 32 <= c < 127 and c != 92 else "\\x%02x" % c if c < 256 else "\\u{%x}" % c for c in d)

# ----------------------------------------------------------------------------- known findings
def load_findings(pid):
    """entries of known_findings.json for this property: {'id','property','shape','call_site','witness','what'}"""
    p = os.path.join(VERIF, "known_findings.json")
    if not os.path.exists(p): return []
    data = json.load(open(p))
    return [f for f in data.get("findings", []) if f.get("property") == pid]

class Findings:
    """open findings of one property, indexed by shape; counts the suppressed oracle failures"""
    def __init__(self, pid):
        self.items = load_findings(pid)
        self.by_shape = {f["shape"]: f for f in self.items}
        self.hits = {f["shape"]: 0 for f in self.items}
        self.example = {}
    def covers(self, shape, example=None):
        if shape in self.by_shape:
            self.hits[shape] += 1
            if example is not None and shape not in self.example: self.example[shape] = example
            return True
        return False
    def report(self, chk, still_fails):
        """still_fails: shape -> bool/str, result of replaying the witness on the implementation"""
        for f in self.items:
            sf = still_fails.get(f["shape"])
            state = "witness still fails" if sf else "witness no longer fails on this tree"
            chk.known_finding("%s [%s] %s: witness %s -> %s (%s; %d case(s) of this shape in this run)" % (
                f["id"], f["shape"], f.get("call_site", ""), f.get("witness", ""), f.get("what", ""), state, self.hits[f["shape"]]))

def wrapper_check(chk, exes, pairs, mine, describe):
    """Convenience entry points against their general forms (harness op `wrap`): the checks compare the general forms
    (…ExMm) with the model; this establishes that the wrappers (…, …Ex) are those forms with the documented defaults.
    pairs: [(text a, text b)] as encoded fields; mine: names this property is responsible for."""
    reqs = ["wrap %s %s" % (a, b) for a, b in pairs]
    n = 0
    for fl in ("A", "W", "A_asan"):
        if fl not in exes: continue
        out = run_lines(exes[fl], reqs if fl != "A_asan" else reqs[::5])
        n += len(out)
        for rq, o in zip(reqs if fl != "A_asan" else reqs[::5], out):
            if o in ("wrap ok", "wrap parse-error"): continue
            if not o.startswith("wrap !"):
                chk.violation("crash or sanitizer report in a convenience entry point: " + o[:200], {"request": rq, "build": fl, "impl": o}); continue
            names = o[6:].split(",")
            hit = [x for x in names if x in mine or x == "memory"]
            if hit:
                chk.violation(describe % ", ".join(hit), {"request": rq, "a": show(rq.split()[1]), "b": show(rq.split()[2]), "build": fl, "impl": o})
    chk.cov["evaluations"] += n
    chk.cov.setdefault("distribution", {})
    return n

# ----------------------------------------------------------------------------- verdicts and evidence
# evidence/ and replays/ go under VERIF_OUT when set (self-tests on scratch copies must not overwrite the real tree's evidence)
OUT = os.environ.get("VERIF_OUT") or VERIF

class Check:
    def __init__(self, pid, tier, seed):
        self.pid = pid; self.tier = tier; self.seed = seed
        self.t0 = time.time()
        self.violations = []      # (kind, description, replay dict)
        self.known = []           # KNOWN-FINDING lines
        self.cov = {"evaluations": 0, "distinct_nontrivial": 0, "samples": [], "rule": "",
                    "traces_validated_against_impl": 0, "distribution": {}}
        self.assumptions = []
        self.rng = random.Random(seed)
        self._replay_n = 0
        rdir = os.path.join(OUT, "replays", pid)
        if os.path.isdir(rdir):
            for f in os.listdir(rdir):
                if f.startswith(tier + "_"): os.remove(os.path.join(rdir, f))

    def violation(self, what, replay, found_input=True, force=False):
        if len(self.violations) >= 20 and not force:
            self.violations.append(None); return
        os.makedirs(os.path.join(OUT, "replays", self.pid), exist_ok=True)
        self._replay_n += 1
        path = os.path.join("replays", self.pid, "%s_%03d.json" % (self.tier, self._replay_n))
        replay = dict(replay); replay["property"] = self.pid; replay["what"] = what
        replay["replay_cmd"] = "./check %s --replay %s" % (self.pid, path)
        with open(os.path.join(OUT, path), "w") as f: json.dump(replay, f, indent=1)
        self.violations.append((what, path, found_input))

    def known_finding(self, text):
        self.known.append(text)

    def finish(self, proofs, level="proof", extra_cov=None, checker_cmd=None):
        cov = self.cov
        if extra_cov: cov.update(extra_cov)
        cov["obligations"] = proofs["obligations"]
        cov["discharged"] = proofs["discharged"]
        cov["theorems"] = proofs["theorems"]
        cov["checker_cmd"] = checker_cmd or ("make -C coq (full .vo build) && coqc -Q coq UP coq/Props/%s.v (Print Assumptions per theorem)" % self.pid)
        tb = ["Coq 8.16.1 kernel, coqc, vm_compute (no native_compute)",
              "extraction: ExtrOcamlBasic only (no Extract Constant), OCaml 4.13.1, ocaml/driver.ml glue",
              "harness/drv.c, gcc, ASan/UBSan; gen/*.py comparison",
              "model hand-written from /repo/src; tied by the correspondence run of this check"]
        for t, a in proofs["assumptions"].items():
            tb.append("Print Assumptions %s: %s" % (t, a))
        cov["trusted_base"] = tb
        real = [v for v in self.violations if v]
        if proofs["failures"]:
            for fmsg in proofs["failures"]:
                self.violation("proof obligation no longer checks: " + fmsg, {"theorem_or_correspondence": fmsg}, found_input=False, force=True)
            real = [v for v in self.violations if v]
        ev = {"property_id": self.pid, "tier": self.tier, "seed": self.seed, "level": level,
              "coverage": cov, "assumptions": self.assumptions, "wall_s": round(time.time() - self.t0, 2),
              "violations": len(real), "known_findings_replayed": self.known}
        os.makedirs(os.path.join(OUT, "evidence"), exist_ok=True)
        with open(os.path.join(OUT, "evidence", self.pid + ".json"), "w") as f:
            json.dump(ev, f, indent=1)
        lines = ["KNOWN-FINDING: property=%s %s" % (self.pid, k) for k in self.known]
        if real:
            # violations with a failing input first
            real.sort(key=lambda v: not v[2])
            logs = ["violation: " + what for what, path, found in real[:10]]
            logs += ["violation: " + what for what, path, found in real[10:] if what.startswith("proof obligation")]   # never dropped from the log
            what, path, found = real[0]
            lines.append("VIOLATION property=%s replay=%s%s" % (self.pid, path, "" if found else " no-failing-input-found"))
            if not found and getattr(self, "defer_if_no_input", False):
                # a proof obligation or the correspondence broke, but no input was found on which the property fails:
                # the caller searches deeper (thorough-tier generators) before this verdict is printed
                self.deferred = (lines, logs)
                return 1
            for l in logs: log(l)
            for l in lines: print(l)
            return 1
        for l in lines: print(l)
        print("OK property=%s tier=%s evaluations=%d obligations=%d/%d wall=%.1fs" % (
            self.pid, self.tier, cov["evaluations"], cov["discharged"], cov["obligations"], time.time() - self.t0))
        return 0
