"""Input generators shared by the parser properties (C01-C04, C19): the conformance suite derived
from the model's control automaton, grammar-directed URIs, malformed variants, and the strings of
the repository's own tests."""
import os, re, random
import lib
from lib import enc, dec

def automaton_suite(mdl, mode):
    out = lib.run_lines(mdl, ["suite %d" % mode], chunks=1)[0]
    parts = out.split(";")
    nstates = int(parts[0].split("=")[1])
    strs = [p for p in parts[1:] if p]
    return nstates, sorted(set(strs))

def two_step_suite(mdl, stride, phase):
    out = lib.run_lines(mdl, ["suite2 %d %d" % (stride, phase)], chunks=1)[0]
    return sorted(set(p for p in out.split(";") if p))

UNRES = "abcdefghijklmnopqrstuvwxyzABCDEFGHIJKLMNOPQRSTUVWXYZ0123456789-._~"
SUB = "!$&'()*+,;="
HEX = "0123456789abcdefABCDEF"

def g_pct(r): return "%" + r.choice(HEX) + r.choice(HEX)
def g_chars(r, alphabet, n, pct=0.15):
    return "".join(g_pct(r) if r.random() < pct else r.choice(alphabet) for _ in range(n))
def g_len(r): return r.choice([0, 0, 1, 1, 2, 3, 5, 8])
def g_octet(r):
    # mostly valid octets at the case splits of the dec-octet rule; sometimes just outside it
    if r.random() < 0.12: return r.choice(["256", "259", "260", "265", "269", "270", "299", "300", "999", "00", "01", "001", "1000", ""])
    return str(r.choice([0, 1, 9, 10, 99, 100, 199, 200, 249, 250, 255, r.randint(0, 255)]))
def g_ip4(r): return ".".join(g_octet(r) for _ in range(4))
def g_h16(r): return "".join(r.choice(HEX) for _ in range(r.randint(1, 4)))
def g_ip6(r):
    use4 = r.random() < 0.3
    total = 6 if use4 else 8
    if r.random() < 0.6:
        gone = r.randint(1, total)
        left = r.randint(0, total - gone)
        right = total - gone - left
        s = ":".join(g_h16(r) for _ in range(left)) + "::" + ":".join(g_h16(r) for _ in range(right))
        if use4: s += ("" if s.endswith("::") else ":") + g_ip4(r)
        return s
    s = ":".join(g_h16(r) for _ in range(total))
    if use4: s += ":" + g_ip4(r)
    return s
def g_host(r):
    k = r.random()
    if k < 0.25: return "[" + g_ip6(r) + "]"
    if k < 0.32: return "[v" + g_chars(r, HEX, r.randint(1, 3), 0) + "." + g_chars(r, UNRES + SUB + ":", r.randint(1, 4), 0) + "]"
    if k < 0.5: return g_ip4(r)
    return g_chars(r, UNRES + SUB, g_len(r))
def g_authority(r):
    s = ""
    k = r.random()
    if k < 0.25: s += g_chars(r, UNRES + SUB + ":", g_len(r)) + "@"
    elif k < 0.40:   # "name:password" forms; a digits-only password is first taken for a port by the parser
        s += r.choice(["", "u", g_chars(r, UNRES, 2, 0)]) + ":" + r.choice(["", "1", "80", "8080", "12a", "a1", "%31", "1%41", "80%2Fabc", "1.", "12:3", "1:", "0-"]) + "@"
    s += g_host(r)
    if r.random() < 0.4: s += ":" + "".join(r.choice("0123456789") for _ in range(r.choice([0, 1, 2, 5])))
    return s
def g_seg(r, nz=False, nc=False):
    n = g_len(r)
    if nz and n == 0: n = 1
    alpha = UNRES + SUB + "@" + ("" if nc else ":")
    if r.random() < 0.25: return r.choice([".", "..", "", "a", "b:c"][: 4 if nc else 5]) or ("x" if nz else "")
    return g_chars(r, alpha, n)
def g_uri(r):
    s = ""
    has_scheme = r.random() < 0.6
    if has_scheme:
        s += r.choice("abcxyzHTFS") + g_chars(r, "abcdefghijklmnopqrstuvwxyz0123456789+-.", r.choice([0, 1, 3, 4]), 0) + ":"
    k = r.random()
    if k < 0.45:
        s += "//" + g_authority(r)
        s += "".join("/" + g_seg(r) for _ in range(r.choice([0, 0, 1, 2, 3])))
    elif k < 0.65:
        s += "/"
        if r.random() < 0.8: s += g_seg(r, nz=True) + "".join("/" + g_seg(r) for _ in range(r.choice([0, 1, 2])))
    elif k < 0.9:
        s += g_seg(r, nz=True, nc=not has_scheme) + "".join("/" + g_seg(r) for _ in range(r.choice([0, 1, 2])))
    if r.random() < 0.35: s += "?" + g_chars(r, UNRES + SUB + ":@/?", g_len(r))
    if r.random() < 0.35: s += "#" + g_chars(r, UNRES + SUB + ":@/?", g_len(r))
    return s

BAD = " \"<>\\^`{|}[]#%\x00\x7f"
def mutate(r, s):
    cps = [ord(c) for c in s]
    k = r.random()
    pos = r.randint(0, len(cps))
    ins = r.choice([ord(r.choice(BAD)), ord(r.choice(":/?#[]@%")), r.randint(1, 255), ord(r.choice(UNRES))])
    if k < 0.4 or not cps: cps.insert(pos, ins)
    elif k < 0.7: del cps[min(pos, len(cps) - 1)]
    else: cps[min(pos, len(cps) - 1)] = ins
    return cps

def random_uris(rng, n):
    out = []
    for _ in range(n):
        s = g_uri(rng)
        out.append(enc([ord(c) for c in s]))
        if rng.random() < 0.6: out.append(enc(mutate(rng, s)))
    return out

def ip4_suite():
    """dotted hosts around every case split of the dec-octet rule (which lives in UriIp4.c, not in the control automaton of the
    parser): every value 0..309 plus out-of-range and leading-zero forms, in each of the four positions, as a bare host, behind
    user info, before a port, before a path, and as the tail of an IPv6 literal; always with the octet at the very END of the
    text too (the scanner must not look past it)"""
    octs = [str(v) for v in range(0, 310)] + ["999", "1000", "00", "01", "001", "010", "0255", ""]
    out = []
    for o in octs:
        for pos in range(4):
            q = ["10", "0", "255", "7"]; q[pos] = o; h = ".".join(q)
            out.append("//" + h)
            if pos == 3 or int(o or 0) % 7 == 0:
                out += ["s://u@" + h, "//" + h + ":8", "//" + h + "/p", "//u:1@" + h + ":", "//[::" + h + "]", "//[1:2:3:4:5:6:" + h + "]"]
    return sorted(set(enc([ord(c) for c in x]) for x in out))

def repo_corpus():
    """string literals of the repository's tests that look like URI material (plus the dotted-host suite)"""
    out = set()
    tdir = os.path.join(lib.REPO, "test")
    if not os.path.isdir(tdir): return []
    for f in sorted(os.listdir(tdir)):
        if not f.endswith((".cpp", ".c", ".h")): continue
        try: txt = open(os.path.join(tdir, f), errors="replace").read()
        except OSError: continue
        for m in re.finditer(r'"((?:[^"\\\n]|\\.){1,200})"', txt):
            lit = m.group(1)
            if "\\" in lit: continue
            out.add(enc([ord(c) for c in lit if ord(c) < 256]))
    return sorted(out)[:3000] + ip4_suite()


# ------------------------------------------------------------------ long components (counters of a narrow type, thresholds at 2^8, 2^15, 2^16)
def long_templates(n):
    """valid references with one component of n characters / n segments (no IPv6 literal: the text is its own recomposition)"""
    a = "a" * n
    return [a + ":", "s://" + a, "s://" + "u" * n + "@h", "s://h:" + "1" * n, "s://h/" + a, "s://h/" + "a/" * n, "?" + "q" * n, "#" + "f" * n,
            "s://h/" + "%41" * n, "//[v" + "1" * n + ".x]", "//[v1." + a + "]", "../" * n + "x", a, "s:" + "a/" * n + "b?" + "k=v&" * n,
            "//" + "1" * n + ".2.3.4", "s://h/" + "./" * n + "x", "s://h/" + "a/../" * n]

def long_cases(sizes):
    """-> list of (text, expected rc, expected error position or None)"""
    out = []
    for n in sizes:
        for t in long_templates(n):
            out.append((t, 0, None))
            out.append((t + " ", 1, len(t)))                       # a character no rule accepts, right behind
            if not t.startswith("//["):
                k = len(t) // 2
                out.append((t[:k] + "^" + t[k:], 1, k))            # ... and in the middle of the long component
    return out

def long_texts(sizes=(255, 256, 257, 1025)):
    return [enc([ord(c) for c in t]) for t, _, _ in long_cases(sizes)]

def widen(rng, f):
    """a wide-only variant: one character replaced by a code point >= 128 (sometimes > 255)"""
    cps = dec(f) or []
    if not cps: return enc([rng.choice([0x80, 0xff, 0x100, 0x20ac])])
    i = rng.randrange(len(cps))
    if rng.random() < 0.5:
        # an alias of the character that stands there: same low byte(s), so any truncation to 8 or 16 bits makes the text look valid
        cps[i] = cps[i] + rng.choice([0x100, 0x200, 0x10000, 0x100000, 0x7fffff00])
    else:
        cps[i] = rng.choice([0x80, 0xe9, 0xff, 0x100, 0x141, 0x20ac, 0x10ffff, ord('a') + 256, ord('/') + 256, ord(':') + 65536])
    return enc(cps)

def widen_all(f, limit=40):
    """every single-position alias (+256) of a text: systematic version of widen for short texts"""
    cps = dec(f) or []
    out = []
    for i in range(min(len(cps), limit)):
        c = list(cps); c[i] += 0x100; out.append(enc(c))
    return out
