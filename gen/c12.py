"""C12 — owned URIs are independent of their source; borrowed text is never altered."""
import json
import lib, uris, c07
from lib import enc, enc_s, dec, show

PID = "C12"

def run(chk):
    proofs = lib.check_proofs(PID)
    exes = lib.build_impl(); mdl = lib.build_model()
    q = chk.tier == "quick"
    texts = ["s://u@h:8/a/b?q#f", "//1.2.3.4/x", "//[::1]/x", "//[vF.x]/A", "//H%41/%7e", "a/../b", "/", "", "s:", "//h", "//u@h:", "HTTP://EX/%2e/./x/..", "s:/.//a",
             "//[::A:B]/x", "s://U@[Ab::1.2.3.4]:8/A?Q#F", "//[VF.X]", "//1.2.3.4/%41", "S://[::1]",
             "/..//.", "s:/a/..//b", "a/..///b"]      # the guard segment of normalization: its "." must be a block of the object's own
    texts += uris.valid_texts(mdl, uris.small_texts(2, alphabet=uris.SEG_FULL, auths=(None, "//H%41", "//u@[::1]:8", "//1.2.3.4", "//[vF.x]"), schemes=(None, "S"), queries=(None, "%7e"), frags=(None, "F")))
    if q: texts = texts[:21] + chk.rng.sample(texts[21:], 250)
    # every combination of absent / empty / non-empty components (an empty component of an owned URI is the library's constant,
    # never a pointer into the source), IPv6 spellings of every length
    deg = uris.valid_texts(mdl, uris.degenerate_texts()) + uris.valid_texts(mdl, uris.long_ip6_texts())
    texts += chk.rng.sample(deg, 160) if q else deg
    reqs = []
    for t in texts:
        reqs.append("makeowner " + uris.P(t))
        # masks made of undefined bits only are non-zero masks too: the URI must come back owned
        for mask in ([63, 1, 2, 4, 8, 16, 32, 4294967295, 64, 2147483648, 4294967232] if q else list(range(1, 64)) + [4294967295] + uris.ODD_MASKS):
            for ow in (0, 1): reqs.append("normalize %d %d %s" % (mask, ow, uris.P(t)))
        reqs.append("normalize 0 0 " + uris.P(t))
    # resolution / reference creation: the sources are read-only arguments (ro=) and the results borrow from them
    for b in ["s://u@h:8/a/b?q", "s:/x/y", "s://[::1]/a"]:
        for t in texts[:40]:
            reqs.append("addbase 0 %s %s" % (uris.P(t), uris.P(b))); reqs.append("removebase 0 %s %s" % (uris.P(b), uris.P("s://u@h:8/a/c")))
    hreq = c07.gen_histories(chk, mdl, 1500 if q else 30000)
    model = lib.run_lines(mdl, reqs + hreq)
    nontrivial = set(); corr = []
    for fl in ("A", "W", "A_asan", "W_asan"):
        impl = lib.run_lines(exes[fl], reqs + hreq)
        chk.cov["evaluations"] += len(impl); chk.cov["traces_validated_against_impl"] += len(impl)
        for rq, o, m in zip(reqs + hreq, impl, model):
            if o.startswith("!") or "!crash" in o:
                chk.violation("crash or sanitizer report (stale pointer into released source text?): " + o[:200], {"request": rq, "build": fl, "impl": o}); continue
            if o != m: corr.append((rq, fl, o, m))
            w = rq.split()[0]
            if w in ("makeowner", "normalize") and o.split()[1] == "0":
                masked = w == "makeowner" or rq.split()[1] != "0"
                prov = o.split(" prov=")[1].split()[0]
                t1 = o.split(" T=")[1].split()[0]
                if " in=1" not in o: chk.violation("caller-supplied input text was modified", {"request": rq, "build": fl, "impl": o})
                elif masked and ("i" in prov or "s" in prov):
                    chk.violation("a component still points into the source text after make-owner / normalization (provenance %s)" % prov, {"request": rq, "build": fl, "impl": o})
                elif masked and (" again T=" not in o or o.split(" again T=")[1].split()[0] != t1):
                    chk.violation("the recomposed text changed after the source strings were overwritten and released", {"request": rq, "build": fl, "impl": o})
                elif masked and " U " in o and o.split(" U ")[1].split()[8] != "1":
                    chk.violation("owner flag not set", {"request": rq, "build": fl, "impl": o})
                if fl == "A": nontrivial.add(rq)
            elif w in ("addbase", "removebase"):
                if " ro=1" not in o: chk.violation("a URI passed as read-only argument was modified", {"request": rq, "build": fl, "impl": o})
            elif w == "hist":
                if "!ro" in o: chk.violation("a URI passed as read-only argument was modified", {"request": rq, "build": fl, "impl": o})
                elif "!src" in o: chk.violation("a text handed to the parser was written to by a later operation (borrowed text altered)", {"request": rq, "build": fl, "impl": o})
    lib.wrapper_check(chk, exes, [(enc_s(t), enc_s("s://h/a")) for t in texts], ("makeowner", "normalize", "normalizeex"), "uriMakeOwner / uriNormalizeSyntax[Ex] do not behave like the ...Mm forms with the documented defaults: value or ownership differs (%s)")
    if corr and not chk.violations:
        rq, fl, o, m = corr[0]
        chk.violation("correspondence broken: memory-tier model and implementation disagree (%d cases)" % len(corr),
                      {"correspondence": "Model/OpsM.v (make_owner_m, normalize_m) vs src/UriNormalize.c", "request": rq, "build": fl, "impl": o, "model": m}, found_input=False)
    chk.cov["distinct_nontrivial"] = len(nontrivial)
    chk.cov["rule"] = "URIs of every host kind (reg-name, IPv4, IPv6, IPvFuture), with and without each component: make-owner, and normalization with masks (all 63 non-zero masks in the thorough tier) on borrowed and owned objects; after each the provenance of every range is printed, the source buffers are overwritten and released and the text is read again (ASan builds catch stale pointers); inputs check-summed; histories with read-only argument snapshots"
    chk.cov["distribution"] = {"texts": len(texts), "requests": len(reqs), "histories": len(hreq)}
    chk.cov["samples"] = [{"request": reqs[0], "model": model[0]}, {"request": reqs[5], "model": model[5]}]
    chk.assumptions = ["a write into caller memory is runtime behaviour: observed by check-sums, read-only snapshots and ASan; the theorem is the provenance invariant of the memory-tier model"]
    return chk.finish(proofs)

def replay(path):
    r = json.load(open(path)); exes = lib.build_impl(); mdl = lib.build_model()
    rq = r.get("request")
    if not rq: print(json.dumps(r, indent=1)); return 0
    print("request:", rq); print("model  :", lib.run_lines(mdl, [rq])[0])
    for fl, exe in exes.items(): print("impl %-7s:" % fl, lib.run_lines(exe, [rq])[0])
    return 0
