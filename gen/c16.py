"""C16 — percent-escaping is lossless, bounded and safe in place."""
import itertools, json, os
import lib
from lib import enc, dec, show

PID = "C16"
ESC_ALPHA = [0x61, 0x20, 0x2b, 0x25, 0x34, 0x7e, 0x0d, 0x0a, 0x80, 0xff, 0x01, 0x2f]
UNESC_ALPHA = [0x25, 0x34, 0x31, 0x61, 0x41, 0x64, 0x44, 0x30, 0x47, 0x2b, 0x20, 0x80, 0x67]

def gen_cases(chk):
    tier = chk.tier; rng = chk.rng
    maxlen = 3 if tier == "quick" else 4
    esc, unesc = [], []
    for n in range(0, maxlen + 1):
        for t in itertools.product(ESC_ALPHA, repeat=n):
            for stp in (0, 1):
                for nb in (0, 1):
                    mode = (len(esc) + n) % 2
                    esc.append("esc %s %d %d %d" % (enc(list(t)), stp, nb, mode))
    umax = 3 if tier == "quick" else 4
    for n in range(0, umax + 1):
        for t in itertools.product(UNESC_ALPHA, repeat=n):
            k = len(unesc)
            # all 8 option combinations for short strings, a rotating one for the longest
            combos = [(p, b) for p in (0, 1) for b in (0, 1, 2, 3)]
            if n == umax: combos = [combos[k % 8]]
            for (p, b) in combos:
                unesc.append("unesc %s %d %d 1" % (enc(list(t)), p, b))
            if n <= 2: unesc.append("unesc %s 0 3 0" % enc(list(t)))
    # token-level enumeration: every sequence of <= 3 (quick) / 4 (thorough) tokens
    TOK = [[0x25,0x30,0x44],[0x25,0x30,0x41],[0x25,0x30,0x64],[0x25,0x30,0x61],[0x25,0x34,0x31],[0x25],[0x25,0x34],
           [0x61],[0x2b],[0x25,0x47,0x31],[0x25,0x34,0x47],[0x0d],[0x0a],[0x25,0x32,0x35]]
    for n in range(1, (3 if tier == "quick" else 4) + 1):
        for ts in itertools.product(TOK, repeat=n):
            t = [c for tk in ts for c in tk]
            k = len(unesc)
            combos = [(p, b) for p in (0, 1) for b in (0, 1, 2, 3)]
            if n >= 3: combos = [combos[k % 8], combos[(k // 8 + 3) % 8]]
            for (p, b) in combos:
                unesc.append("unesc %s %d %d 1" % (enc(t), p, b))
    # random long strings, line-break heavy and percent heavy
    nrand = 1500 if tier == "quick" else 40000
    for i in range(nrand):
        L = rng.choice([5, 8, 13, 40, 200])
        t = [rng.choice(ESC_ALPHA + [rng.randint(1, 255)]) for _ in range(L)]
        esc.append("esc %s %d %d %d" % (enc(t), rng.randint(0, 1), rng.randint(0, 1), rng.randint(0, 1)))
        pieces = []
        while len(pieces) < L:
            r = rng.random()
            if r < 0.35: pieces += [0x25, rng.choice(b"0123456789abcdefABCDEF"), rng.choice(b"0123456789abcdefABCDEFgG%")]
            elif r < 0.55: pieces += [0x25, 0x30, rng.choice(b"aAdD")]
            else: pieces.append(rng.choice(UNESC_ALPHA + [rng.randint(1, 255)]))
        unesc.append("unesc %s %d %d 1" % (enc(pieces), rng.randint(0, 1), rng.randint(0, 3)))
    # long strings: lengths around the limits of narrow counters (256, 4096, 65536), plain, fully escaped, break-heavy, triplet-heavy
    for n in ((255, 256, 257, 1025) if tier == "quick" else (255, 256, 257, 511, 512, 1025, 4096)):
        for k, unit in enumerate(([0x61], [0x20], [0x0d, 0x0a], [0xff], [0x61, 0x20, 0x0d])):
            t = (unit * (n // len(unit) + 1))[:n]
            esc.append("esc %s %d %d %d" % (enc(t), (k + n) % 2, (k // 2 + n) % 2, n % 2))
        for k, unit in enumerate(([0x25, 0x34, 0x31], [0x25, 0x30, 0x44, 0x25, 0x30, 0x41], [0x2b], [0x25], [0x61])):
            t = (unit * (n // len(unit) + 1))[:n]
            unesc.append("unesc %s %d %d 1" % (enc(t), (k + n) % 2, (k + n) % 4))
    return esc, unesc

ESC_UNITS = ([0x61], [0x20], [0x0d, 0x0a], [0xff], [0x61, 0x20, 0x0d], [0x7e, 0x2f])
UNESC_UNITS = ([0x25, 0x34, 0x31], [0x25, 0x30, 0x44, 0x25, 0x30, 0x41], [0x2b], [0x25, 0x67], [0x61], [0x25, 0x30, 0x64, 0x78])

def check_long(chk, exes, mdl):
    """Strings far longer than any counter of a narrow type could hold (32 767 .. 131 073 characters).  Every string is a whole number of
    repetitions of a unit on which escaping / unescaping is a homomorphism (the unit ends where no state is carried over: after LF,
    or before a character that is neither LF nor part of a triplet), so the expected result is the model's result on ONE unit,
    repeated; the model itself is not run on the long strings."""
    sizes = (32767, 32768, 65535, 65536, 65537) if chk.tier == "quick" else (32767, 32768, 32769, 65535, 65536, 65537, 131071, 131073, 262145)
    unit_rq = []; cases = []
    for n in sizes:
        for ui, u in enumerate(ESC_UNITS):
            k = n // len(u); stp, nb = (ui + n) % 2, (ui // 2 + n) % 2
            cases.append(("esc %s %d %d %d" % (enc(u * k), stp, nb, n % 2), k)); unit_rq.append("esc %s %d %d 0" % (enc(u), stp, nb))
        for ui, u in enumerate(UNESC_UNITS):
            k = n // len(u); p, b = (ui + n) % 2, (ui + n) % 4
            cases.append(("unesc %s %d %d 1" % (enc(u * k), p, b), k)); unit_rq.append("unesc %s %d %d 1" % (enc(u), p, b))
    unit = lib.run_lines(mdl, unit_rq)
    reqs = [c[0] for c in cases]
    for name in ("A", "W", "A_asan"):
        if chk.tier == "quick" and name == "A_asan": continue
        impl = lib.run_lines(exes[name], reqs, chunks=min(lib.NCPU, len(reqs)))
        chk.cov["evaluations"] += len(reqs)
        for (rq, k), o, um in zip(cases, impl, unit):
            of = o.split(); uf = um.split()
            short = {"request": rq[:120] + " ... (%d repetitions of the unit)" % k, "unit_model": um, "impl": o[:200] + " ...", "build": name}
            if len(of) != 4 or of[3] != "1" or o.startswith("!"):
                chk.violation("%s of a long string: malformed/unsafe result or crash (%s build)" % (rq.split()[0], name), short); continue
            want = (dec(uf[2]) or []) * k
            got = dec(of[2]) or []
            if got != want or int(of[1]) != len(want):
                chk.violation("%s of a string of %d characters is not the per-unit result repeated (%d characters expected, %d obtained)" % (rq.split()[0], k * len(dec(rq.split()[1]) or []) // max(k, 1), len(want), len(got)), short)
    return len(reqs)

def run(chk):
    proofs = lib.check_proofs(PID)
    exes = lib.build_impl()
    mdl = lib.build_model()
    nlong = check_long(chk, exes, mdl)
    esc, unesc = gen_cases(chk)
    reqs = esc + unesc
    model = lib.run_lines(mdl, reqs)
    spec_un = lib.run_lines(mdl, ["spec_" + r for r in unesc])
    # cursor-level model on the same requests: must agree with the pure model and never write past the terminator
    inpl = lib.run_lines(mdl, ["unesc_inplace" + r[5:] for r in unesc if r.endswith(" 1")])
    nontrivial = set()
    dist = {"escape": len(esc), "unescape": len(unesc), "with_triplet": 0, "with_break": 0, "malformed_pct": 0}
    mism = {}
    for fl, exe in exes.items():
        impl = lib.run_lines(exe, reqs)
        chk.cov["evaluations"] += len(reqs)
        chk.cov["traces_validated_against_impl"] += len(reqs)
        for i, (rq, a, m) in enumerate(zip(reqs, impl, model)):
            if a != m:
                mism.setdefault(i, []).append((fl, a))
    # ---- property oracles on the implementation's own outputs (independent of the model)
    # escape: alphabet, bound, terminator, round trip through the implementation's own unescape
    implA = lib.run_lines(exes["A"], reqs)
    implW = lib.run_lines(exes["W"], reqs)
    for name, impl, exe in (("A", implA, exes["A"]), ("W", implW, exes["W"])):
        esc_out = impl[:len(esc)]
        form_rq, rt_rq, meta = [], [], []
        for rq, o in zip(esc, esc_out):
            f = rq.split(); of = o.split()
            if len(of) != 4 or of[0] != "esc" or of[3] != "1" or o.startswith("!"):
                chk.violation("escape: malformed/unsafe result (%s build): %s" % (name, o), {"request": rq, "impl": o, "build": name}); continue
            inp = dec(f[1]) or []; out = dec(of[2]) or []
            stp, nb = int(f[2]), int(f[3])
            if int(of[1]) != len(out):
                chk.violation("escape: returned pointer is not the terminator", {"request": rq, "impl": o, "build": name})
            if len(out) > (6 if nb else 3) * len(inp):
                chk.violation("escape: output longer than documented bound", {"request": rq, "impl": o, "build": name})
            form_rq.append("spec_escform %d %s" % (stp, of[2]))
            rt_rq.append("unesc %s %d 3 1" % (of[2], stp))
            meta.append((rq, o, inp, nb))
        forms = lib.run_lines(mdl, form_rq)
        rts = lib.run_lines(exe, rt_rq)
        crl = lib.run_lines(mdl, ["spec_crlf %s" % enc(m[2]) for m in meta])
        for (rq, o, inp, nb), fo, rt, cr in zip(meta, forms, rts, crl):
            if fo != "1":
                chk.violation("escape emitted a character outside unreserved / %XX upper-case / requested '+'", {"request": rq, "impl": o, "build": name})
            if 0 in inp: continue
            want = cr if nb else enc(inp)
            got = rt.split()[2] if len(rt.split()) >= 3 else rt
            if got != want:
                chk.violation("unescape(escape(x)) != x", {"request": rq, "escaped": o, "unescaped": rt, "expected": want, "build": name})
        un_out = impl[len(esc):]
        for rq, o, sp in zip(unesc, un_out, spec_un):
            f = rq.split(); of = o.split()
            if len(of) != 4 or of[3] != "1" or o.startswith("!"):
                chk.violation("unescape: malformed/unsafe result (%s build): %s" % (name, o), {"request": rq, "impl": o, "build": name}); continue
            inp = dec(f[1]) or []; out = dec(of[2]) or []
            if len(out) > len(inp):
                chk.violation("unescape lengthened the string", {"request": rq, "impl": o, "build": name})
            if o != sp:
                chk.violation("unescape differs from the tokenising specification", {"request": rq, "impl": o, "spec": sp, "build": name})
    # cursor-level model vs pure model
    k = 0
    for rq, m in zip(unesc, model[len(esc):]):
        if not rq.endswith(" 1"): continue
        il = inpl[k]; k += 1
        n = len(dec(rq.split()[1]) or [])
        ok = il.startswith(m + " ")
        mw = int(il.split("maxwrite=")[1].split()[0]) if "maxwrite=" in il else 10**9
        if not ok or mw > n:
            chk.violation("cursor-level model disagrees with pure model or writes past the terminator", {"request": rq, "pure": m, "inplace": il}, found_input=False)
    # ---- correspondence verdict
    for i, lst in sorted(mism.items())[:50]:
        rq = reqs[i]
        already = any(v and v[1] and False for v in chk.violations)
        chk.violation("correspondence broken: model and implementation disagree on %s" % rq.split()[0],
                      {"correspondence": "Model/Escape.v vs src/UriEscape.c", "request": rq, "model": model[i],
                       "impl": {fl: a for fl, a in lst}}, found_input=False)
    # ---- coverage accounting
    for rq, m in zip(reqs, model):
        f = rq.split(); t = dec(f[1]) or []
        if f[0] == "unesc":
            if 0x25 in t: dist["with_triplet"] += 1
            if m.split()[2] != f[1]: nontrivial.add(rq)
        else:
            if any(c in (10, 13) for c in t): dist["with_break"] += 1
            if m.split()[2] != f[1]: nontrivial.add(rq)
    chk.cov["distinct_nontrivial"] = len(nontrivial)
    chk.cov["rule"] = ("all strings of length <= %d over the codec alphabets x flags x modes, plus random long strings; "
                       "a case is non-trivial when the (model) output differs from the input; distinct by request line; "
                       "each request is run on 4 builds (char/wchar_t x plain/ASan)" % (3 if chk.tier == "quick" else 4))
    chk.cov["distribution"] = dist
    chk.cov["samples"] = [{"request": reqs[i], "input": show(reqs[i].split()[1]), "model": model[i]} for i in
                          (0, len(esc) // 2, len(esc) - 1, len(esc) + len(unesc) // 2, len(reqs) - 1)]
    chk.cov["exhaustive"] = False
    chk.assumptions = ["property restricted to code points 1..255 as stated; wchar_t > 255 only in correspondence",
                       "actual out-of-bounds writes are observed (ASan, canaries), the index discipline is proved on the cursor-level model"]
    return chk.finish(proofs)

def replay(path):
    r = json.load(open(path))
    exes = lib.build_impl(); mdl = lib.build_model()
    rq = r.get("request")
    if not rq:
        print(json.dumps(r, indent=1)); return 0
    print("request:", rq)
    print("model  :", lib.run_lines(mdl, [rq])[0])
    for fl, exe in exes.items():
        print("impl %-7s:" % fl, lib.run_lines(exe, [rq])[0])
    return 0
