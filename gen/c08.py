"""C08 — normalization yields the RFC 3986 syntax-based normal form; masks; idempotence."""
import json, glob, os
import lib, uris
from lib import enc, enc_s, dec, show

PID = "C08"
SHAPES = {"71": "c08_rel_cancels", "74": "c08_rel_stale_dot", "75": "c08_rel_dot_eaten", "72": "c08_rel_exposes_colon", "73": "c08_rel_exposes_empty", "3": "c08_host_triplet_case"}
BITS = [("scheme", 1), ("userInfo", 2), ("host", 4), ("path", 8), ("query", 16), ("fragment", 32)]

def comp(o, name):
    if name == "scheme": return o.scheme
    if name == "userInfo": return o.userInfo
    if name == "host": return (o.hostText, o.ipFuture, o.ip4, o.ip6)
    if name == "path": return (o.abs, tuple(o.segs))
    if name == "query": return o.query
    return o.fragment

def pool(chk, mdl):
    q = chk.tier == "quick"
    texts = uris.small_texts(2 if q else 3, alphabet=uris.SEG_FULL, auths=(None, "//h", "//H%41%2f%7E"), schemes=(None, "S"), queries=(None,))
    texts += uris.small_texts(1, alphabet=["a", "..", "%2E"], auths=("//u%41%3a@[::A]:8", "//[vA.B]", "//1.2.3.4", "//%41:80"), schemes=(None, "hTTp"), queries=(None, "%7e%2f%6A"), frags=(None, "%5A%3f"))
    texts += uris.small_texts(3 if q else 4, alphabet=uris.SEG_SMALL, auths=(None,), schemes=(None,))
    # adjacent percent groups inside one component: an already-normal group directly followed by one that needs work (and the
    # reverse, and three in a row): aimed at the scan of the mask query and at the engine's "i += 2" / last-two-characters boundary
    norm = ["%2F", "%20", "%25", "%3A"]; work = ["%7e", "%41", "%2e", "%5d", "%2f"]
    pairs = [a + b for a in norm for b in work] + [b + a for a in norm[:2] for b in work[:3]] + [a + a2 + b for a in norm[:2] for a2 in norm[1:3] for b in work[:2]] + ["x" + norm[0] + work[0], norm[0] + work[0] + "x", norm[0] + "x" + work[0]]
    pairs += [a + c for a in norm for c in ("B", "Bc", "bC")] + ["B" + a for a in norm[:2]] + [a + "B" + b for a in norm[:2] for b in work[:2]] + ["%E2%82%ACUro"]
    for g in pairs:
        texts += ["//h/" + g, "/" + g + "/b", g, "?" + g, "#" + g, "//" + g + "@h", "//a" + g + ".b/", "s://h/a?k=" + g + "#" + g]
    # relative references that start with an essential dot: "./b:c/../x", "./b:c/../../x", ...
    texts += ["./b:c/" + "/".join(t) for n in range(1, 4 if q else 5) for t in __import__("itertools").product(["..", ".", "x", ""], repeat=n)]
    # the boundary letters of every range test in case folding and percent decoding (A Z a z 0 9, @ [ ` { / : just outside)
    texts += ["AZaz09+.-://AZaz09-._~%41%5A%61%7A%30%39%2D%2E%5F%7E%40%5B%60%7B%2F%3A@AZaz09.%41%5a%7a/AZ%41%5A%5a?AZ%5A#AZ%7a", "Z://Z", "zZ:/Z", "//Z%5A", "//[vZ.Zz]", "//Zz@Z:1/Z"]
    # a colon anywhere in the segment behind the kept dot, also in first and last position
    texts += [pre + seg + tail for pre in ("./", "%2E/", "x/.././", "../") for seg in [":b", ":", "b:", ":80", "a:b:c"] + uris.COLON_SEGS for tail in ("", "/x", "/..", "/../y")]
    # registered names whose only upper-case letter appears when a triplet with two decimal hex digits is decoded (%41..%59)
    texts += [pre + h + post for h in ("ex%41mple.com", "%50%59", "a%41", "%5A", "x%4ay", "%41%2F", "1.2.3.%34") for pre in ("//", "s://", "//u@") for post in ("", "/", ":8/a")]
    # absent / empty / non-empty for every component (an empty component stays present and empty); IPv6 spellings of every length
    deg = uris.degenerate_texts() + uris.long_ip6_texts()
    texts += deg if not q else [t for i, t in enumerate(deg) if i % 3 == 0 or len(t) <= 6]
    for f in sorted(glob.glob(os.path.join(lib.VERIF, "corpus", PID, "*.json"))):
        texts.insert(0, json.load(open(f))["uri"])
    seen = set(); out = []
    for t in uris.valid_texts(mdl, texts):
        if t not in seen: seen.add(t); out.append(t)
    return out

def check_long(chk, exes):
    """references with 256 .. 65 537 repetitions of a unit whose normal form is known by construction (percent-encoded unreserved
    characters, upper-case letters, cancelling dot segments); judged on the implementation alone"""
    quick = chk.tier == "quick"
    sizes = (255, 256, 257, 32768, 65536, 65537) if quick else (255, 256, 257, 4096, 32767, 32768, 65535, 65536, 65537, 131073)
    cases = []
    for n in sizes:
        # one long component
        cases += [("s://h/" + "%41" * n, "s://h/" + "A" * n), ("HTTP://" + "Hh" * n + "/", "http://" + "hh" * n + "/"),
                  ("?" + "%7e" * n, "?" + "~" * n), ("#" + "%2f" * n, "#" + "%2F" * n), ("//" + "%41%2d" * n + "@H", "//" + "A-" * n + "@h")]
        # many segments (the harness records every node and text: quadratic there, so the quick tier stops at 4096 segments)
        if quick and n > 4096: n = {32768: 1025, 65536: 4096, 65537: 4097}[n]
        if n > 32769: n = 32769 + n % 3       # (thorough) two nodes and two texts per "a/../": the recording manager holds 2^19 blocks
        cases += [("s://h/" + "a/../" * n + "x", "s://h/x"), ("s://h/" + "./" * n + "x", "s://h/x"), ("../" * n + "x", "../" * n + "x"),
                  ("s://h/" + "a/" * n + "..", "s://h/" + "a/" * (n - 1)), ("/" + "b/" * n + "../" * n + "c", "/c"), ("s:" + "x/" * n + "%2E%2e/y", "s:" + "x/" * (n - 1) + "y")]
    H = uris.hist
    for fl in ("A", "W"):       # plain builds (the sanitizer builds keep the parser's per-character recursion)
        for owned in (0, 1):
            reqs = [H([('p', 0, t)] + ([('o', 0)] if owned else []) + [('n', 0, 63), ('n', 0, 63)]) for t, _ in cases]
            impl = lib.run_lines(exes[fl], reqs, chunks=min(lib.NCPU, len(reqs)))
            chk.cov["evaluations"] += len(reqs)
            for (t, want), rq, o in zip(cases, reqs, impl):
                steps, end = uris.parse_hist(o)
                info = {"request": rq[:100] + " ... (%d characters: %s...%s)" % (len(t), t[:14], t[-10:]), "build": fl, "impl": o[:200], "owned": owned}
                if steps is None or any("bad" in s_ for s_ in steps) or not end or end["live"] != 0 or end["bad"] != 0 or o.startswith("!"):
                    chk.violation("crash, malformed object or unbalanced memory while normalizing a long reference", info); continue
                got = [s_.get("text") for s_ in steps if s_.get("rc") == 0][-2:]
                if len(got) < 2 or any(dec(g) != [ord(c) for c in want] for g in got):
                    chk.violation("the normal form of a long reference is not the expected one (%d characters expected; after one and after two normalizations)" % len(want), info)

def run(chk):
    extra = tuple(x for x in ("C08text", "C08rel", "C08all", "C08spec") if os.path.exists(os.path.join(lib.COQ, "Props", x + ".v")))
    proofs = lib.check_proofs(PID, extra_props=extra)
    exes = lib.build_impl(); mdl = lib.build_model()
    fnd = lib.Findings(PID)
    check_long(chk, exes)
    texts = pool(chk, mdl)
    spec = dict(zip(texts, lib.run_lines(mdl, ["spec_canon " + x for x in lib.run_lines(mdl, ["spec_normal " + enc_s(t) for t in texts])])))
    H = uris.hist
    reqs = []; meta = []
    for ti, t in enumerate(texts):
        masks = list(range(64)) if (ti % 4 == 0 or chk.tier != "quick") else [0, 1, 2, 4, 8, 16, 32, 63, 4294967295, 64, 4294967232]
        for owned in (0, 1):
            pre = [('p', 0, t)] + ([('o', 0)] if owned else [])
            for m in masks:
                reqs.append(H(pre + [('n', 0, m)])); meta.append((t, owned, m, "mask"))
            reqs.append(H(pre + [('n', 0, 63), ('n', 0, 63)])); meta.append((t, owned, 63, "twice"))
    model = lib.run_lines(mdl, reqs)
    # second round: normalize with the mask the query reported (needs the first round's answer; taken from the model,
    # the implementation's own answer is cross-checked against it by the correspondence)
    req2 = []; meta2 = []
    for rq, m, (t, owned, mask, kind) in zip(reqs, model, meta):
        if kind == "mask" and mask == 0:
            steps, _ = uris.parse_hist(m)
            mreq = steps[0]["mask"]
            pre = [('p', 0, t)] + ([('o', 0)] if owned else [])
            req2.append(H(pre + [('n', 0, mreq)])); meta2.append((t, owned, mreq, "required"))
    reqs += req2; meta += meta2
    model += lib.run_lines(mdl, req2)
    flav = {"A": 1, "W": 1, "A_asan": 5, "W_asan": 7}
    nontrivial = set(); corr = []; suspects = []; twice_suspects = []; pending = []
    for fl, stride in flav.items():
        idx = [i for i in range(len(reqs)) if i % stride == 0]
        impl = lib.run_lines(exes[fl], [reqs[i] for i in idx])
        chk.cov["evaluations"] += len(idx); chk.cov["traces_validated_against_impl"] += len(idx)
        table = {}   # (t, owned) -> {mask: obj step}
        for i, o in zip(idx, impl):
            t, owned, mask, kind = meta[i]
            steps, end = uris.parse_hist(o)
            if steps is None or any("bad" in s for s in steps) or end["live"] != 0 or end["bad"] != 0 or o.startswith("!"):
                chk.violation("crash, malformed object or unbalanced memory during normalization: " + o[-200:], {"request": reqs[i], "build": fl, "impl": o}); continue
            if o != model[i]: corr.append((i, fl, o))
            last = steps[-1]
            if last.get("rc") != 0:
                chk.violation("normalization failed (rc=%s)" % last.get("rc"), {"request": reqs[i], "build": fl, "impl": o}); continue
            if kind == "twice":
                a, b = steps[-2], steps[-1]
                if a["obj"].key() != b["obj"].key() or a["text"] != b["text"]:
                    twice_suspects.append((t, fl, o, a["text"], b["text"], i))
                continue
            table.setdefault((t, owned), {})[(kind, mask)] = (steps[0], last, i, o)
            if fl == "A" and kind == "mask": nontrivial.add((t, mask & 63))
        for (t, owned), row in table.items():
            if ("mask", 63) not in row or ("mask", 0) not in row: continue
            orig, full = row[("mask", 0)][1], row[("mask", 63)][1]
            first = row[("mask", 0)][0]
            # (a) full normal form
            if full["text"] != spec[t]:
                suspects.append((t, fl, row[("mask", 63)][3], full["text"], spec[t], row[("mask", 63)][2]))
            # (b) exactness of every mask
            for (kind, mask), (st0, st, i, o) in row.items():
                if kind != "mask": continue
                for name, bit in BITS:
                    want = comp(full["obj"], name) if (mask & bit) else comp(orig["obj"], name)
                    if comp(st["obj"], name) != want:
                        chk.violation("mask %d: component %s is %s" % (mask, name, "not in normal form" if mask & bit else "changed although not selected"),
                                      {"request": reqs[i], "uri": t, "mask": mask, "build": fl, "impl": o}); break
            # (c) the reported mask is sufficient; zero means already normal
            mreq = first["mask"]
            key = ("required", mreq)
            if key not in row and ("mask", mreq) in row: key = ("mask", mreq)
            if key not in row:
                # the implementation reports another mask than the model: judge ITS answer (run below), not the model's
                pending.append((t, owned, mreq, fl, full, row[("mask", 63)][3]))
            if key in row:
                got = row[key][1]
                if got["text"] != full["text"] or got["obj"].key() != full["obj"].key():
                    chk.violation("normalizing with the mask reported by the query (%d) differs from full normalization" % mreq,
                                  {"request": reqs[row[key][2]], "uri": t, "build": fl, "impl": row[key][3], "full": row[("mask", 63)][3]})
            if mreq == 0 and full["text"] != first["text"]:
                chk.violation("mask query says 0 but full normalization changes the URI", {"uri": t, "build": fl, "request": reqs[row[("mask", 63)][2]], "impl": row[("mask", 63)][3]})
    for fl in flav:
        mine = [p_ for p_ in pending if p_[3] == fl]
        if not mine: continue
        prq = [H([('p', 0, t)] + ([('o', 0)] if owned else []) + [('n', 0, mreq)]) for (t, owned, mreq, _, _, _) in mine]
        pres = lib.run_lines(exes[fl], prq)
        chk.cov["evaluations"] += len(prq)
        for (t, owned, mreq, _, full, fullo), rq, o in zip(mine, prq, pres):
            steps, end = uris.parse_hist(o)
            got = steps[-1] if steps else None
            if not got or got.get("rc") != 0 or got["text"] != full["text"] or got["obj"].key() != full["obj"].key():
                chk.violation("normalizing with the mask reported by the query (%d) differs from full normalization" % mreq,
                              {"request": rq, "uri": t, "build": fl, "impl": o, "full": fullo})
    shp = lib.run_lines(mdl, ["shape_c08 %s %s %s" % (enc_s(t), sp, got) for (t, fl, o, got, sp, i) in suspects])
    for (t, fl, o, got, sp, i), sh in zip(suspects, shp):
        name = SHAPES.get(sh)
        # a listed finding excuses a failure only where the frozen model fails in the same way on this very input
        if name and o == model[i] and fnd.covers(name, {"uri": t}): continue
        chk.violation("full normalization gives %s, the syntax-based normal form is %s" % (show(got), show(sp)),
                      {"request": reqs[i], "uri": t, "build": fl, "impl": o, "expected_text": show(sp), "shape": name})
    # an idempotence failure is the cancelling-relative-reference finding when the once-normalized text has that shape
    if twice_suspects:
        mids = [x[3] for x in twice_suspects]
        msp = lib.run_lines(mdl, ["spec_canon " + x for x in lib.run_lines(mdl, ["spec_normal " + m for m in mids])])
        shp2 = lib.run_lines(mdl, ["shape_c08 %s %s %s" % (m, sp, x[4]) for m, sp, x in zip(mids, msp, twice_suspects)])
        # ... or the first normalization already left the specification in a listed shape (stale dot)
        shp1 = lib.run_lines(mdl, ["shape_c08 %s %s %s" % (enc_s(x[0]), spec[x[0]], x[3]) for x in twice_suspects])
        for (t, fl, o, t1, t2, i), sh, sh1 in zip(twice_suspects, shp2, shp1):
            name = SHAPES.get(sh) or SHAPES.get(sh1)
            if name and o == model[i] and fnd.covers(name, {"uri": t, "once": show(t1), "twice": show(t2)}): continue
            chk.violation("normalizing twice differs from normalizing once", {"request": reqs[i], "uri": t, "build": fl, "impl": o, "shape": name})
    lib.wrapper_check(chk, exes, [(enc_s(t), enc_s("s://h/a")) for t in texts], ("normalize", "normalizeex", "maskrequired"),
                      "uriNormalizeSyntax / uriNormalizeSyntaxEx / uriNormalizeSyntaxMaskRequired[Ex] do not behave like the ExMm form with the documented defaults (%s)")
    if corr and not chk.violations:
        i, fl, o = corr[0]
        chk.violation("correspondence broken: Model/Normalize.v and uriNormalizeSyntaxExMm disagree (%d cases)" % len(corr),
                      {"correspondence": "Model/Normalize.v + Model/Common.v vs src/UriNormalize.c", "request": reqs[i], "build": fl, "impl": o, "model": model[i]}, found_input=False)
    still = {}
    for f in fnd.items:
        t = f["witness_args"][0]
        o = lib.run_lines(exes["A"], [H([('p', 0, t), ('n', 0, 63)])])[0]
        steps, _ = uris.parse_hist(o)
        sp = lib.run_lines(mdl, ["spec_canon " + lib.run_lines(mdl, ["spec_normal " + enc_s(t)])[0]])[0]
        still[f["shape"]] = bool(steps) and steps[-1].get("text") != sp
    fnd.report(chk, still)
    chk.cov["distinct_nontrivial"] = len(nontrivial)
    chk.cov["rule"] = "small-scope URI texts over case/percent/dot alphabets x authorities (reg-name with triplets, IPv6, IPvFuture, IPv4, userinfo, port) x schemes; all 64 masks for every 4th text (all texts in thorough), the single-bit masks, 0, 63 and ~0 for the others; borrowed and owned; mask-required round; twice; distinct by (text, mask)"
    chk.cov["distribution"] = {"texts": len(texts), "requests": len(reqs), "known_finding_hits": fnd.hits}
    chk.cov["samples"] = [{"request": reqs[i], "model": model[i]} for i in (0, len(reqs) // 2)]
    return chk.finish(proofs)

def replay(path):
    r = json.load(open(path)); exes = lib.build_impl(); mdl = lib.build_model()
    rq = r.get("request")
    if not rq: print(json.dumps(r, indent=1)); return 0
    print("request:", rq); print("model  :", lib.run_lines(mdl, [rq])[0])
    for fl, exe in exes.items(): print("impl %-7s:" % fl, lib.run_lines(exe, [rq])[0])
    return 0
