"""URI argument generators: parsed texts (P ...) and raw objects (R ...)."""
import lib, parsesuite
from lib import enc, enc_s

def P(s): return "P " + enc_s(s)
def Pf(f): return "P " + f

def raw(scheme=None, userInfo=None, hostText=None, ip4=None, ip6=None, ipFuture=None, port=None, abs_=0, segs=(), query=None, fragment=None):
    t = lambda x: enc_s(x) if isinstance(x, str) or x is None else enc(x)
    b = lambda x: "-" if x is None else enc(x)
    return "R %s %s %s %s %s %s %s %d %d %s %s %s" % (
        t(scheme), t(userInfo), t(hostText), b(ip4), b(ip6), t(ipFuture), t(port), abs_, len(segs),
        " ".join(t(s) for s in segs) + (" " if segs else ""), t(query), t(fragment))

def raw_fixed():
    """raw objects no parse produces: odd flag combinations, byte values, empty vs absent"""
    out = []
    for ip4 in ([0, 0, 0, 0], [255, 255, 255, 255], [1, 20, 100, 9], [99, 100, 10, 199]):
        out.append(raw(scheme="s", hostText="x", ip4=ip4, segs=["a"]))
    out.append(raw(hostText="::1", ip6=list(range(16))))
    out.append(raw(hostText="::1", ip6=[255] * 16, port="", segs=["", ""]))
    out.append(raw(hostText="v1.x", ipFuture="v1.x", userInfo=""))
    out.append(raw(scheme="", userInfo=None, hostText="", port=None, abs_=1, segs=[""]))
    out.append(raw(abs_=1))
    out.append(raw(abs_=1, segs=["a", "", "b"], query="", fragment=""))
    out.append(raw(scheme="s", hostText="h", abs_=1, segs=["a"]))       # host together with the flag
    out.append(raw(segs=["", "", "a"]))
    out.append(raw(segs=["a:b"]))
    out.append(raw(scheme="s", segs=[""]))
    out.append(raw())
    return out

def parsed_pool(chk, mdl, n):
    """texts accepted by the model, drawn from the suites"""
    strs = parsesuite.random_uris(chk.rng, n * 2) + parsesuite.repo_corpus()
    outs = lib.run_lines(mdl, ["parse %s 3" % f for f in strs])
    good = sorted(set(f for f, o in zip(strs, outs) if o.startswith("parse 0 ")))
    chk.rng.shuffle(good)
    return good[:n]

import itertools
SEG_SMALL = ["", ".", "..", "a", "b:c"]
SEG_FULL = ["", ".", "..", "a", "b", "a:b", "%41", "%2e", "%2F"]

def small_texts(max_segs, alphabet=SEG_SMALL, auths=(None, "//h"), schemes=(None, "s"), queries=(None,), frags=(None,)):
    """all URI texts with a path of <= max_segs segments over the alphabet (syntactic validity is
    filtered later by the model's parser)"""
    out = []
    seen = set()
    for n in range(0, max_segs + 1):
        for segs in itertools.product(alphabet, repeat=n):
            body = "/".join(segs)
            for auth in auths:
                for sch in schemes:
                    for abs_ in ((True,) if auth is not None else (False, True)):
                        if auth is not None:
                            path = ("/" + body) if n > 0 else ""
                        else:
                            if n == 0 and not abs_: path = ""
                            elif n == 0: path = "/"
                            else: path = ("/" if abs_ else "") + body
                        for q in queries:
                            for fr in frags:
                                t = (sch + ":" if sch else "") + (auth or "") + path + ("?" + q if q is not None else "") + ("#" + fr if fr is not None else "")
                                if t not in seen:
                                    seen.add(t); out.append(t)
    return out

def valid_texts(mdl, texts):
    fs = [enc_s(t) for t in texts]
    outs = lib.run_lines(mdl, ["parse %s 3" % f for f in fs])
    return [t for t, o in zip(texts, outs) if o.startswith("parse 0 ")]


# ------------------------------------------------------------------ degenerate shapes shared by the pools
# masks beyond the six named bits: only undefined bits, undefined + one named bit, the top bit
ODD_MASKS = [64, 128, 256, 2147483648, 4294967232, 65, 2147483656]

def degenerate_texts():
    """every combination of absent / present-but-empty / non-empty for user info, host, port, path, query and fragment
    (a component that is present but empty must stay present and empty through every operation)"""
    out = []; seen = set()
    for sch in ("", "s:"):
        for auth in ("", "//", "//h", "//@", "//@h", "//u@", "//:", "//h:", "//:8", "//@:", "//u@h:", "//[::1]:", "//@[v1.x]", "//1.2.3.4:", "//u@1.2.3.4", "//u:p@[::1]"):
            for path in ("", "/", "/a", "a", "/a/", "//"):
                if auth and path and not path.startswith("/"): continue
                for q in ("", "?", "?q"):
                    for f in ("", "#", "#f"):
                        t = sch + auth + path + q + f
                        if t not in seen: seen.add(t); out.append(t)
    return out

# segments with a ':' that is preceded by characters a scheme cannot contain (a first segment like that still needs the "./" guard),
# or by nothing, or by scheme characters only
COLON_SEGS = ["p=q:r", "a_b:c", "~a:b", "%41:b", "u@h:80", ":x", "c:d", "1:2", "a.b+c-d:e", "a:", "!:x", "%3A:"]

# IPv6 literals whose spelling is longer or shorter than the canonical 39-character form uriToString writes, and IPv4 tails
LONG_IP6 = ["[0000:0000:0000:0000:0000:ffff:255.255.255.255]", "[0000:0000:0000:0000:0000:0000:100.100.100.100]", "[FFFF:FFFF:FFFF:FFFF:FFFF:FFFF:255.255.255.255]",
            "[0:0:0:0:0:0:0.0.0.0]", "[::]", "[::1.2.3.4]", "[1:2:3:4:5:6:7:8]", "[0001:0002:0003:0004:0005:0006:0007:0008]", "[::ffff:192.168.100.200]", "[1::]", "[1:2:3:4:5:6:77.77.77.77]"]
def long_ip6_texts():
    out = []
    for h in LONG_IP6:
        for pre in ("//", "s://", "//u@"):
            for post in ("", "/", ":", ":8", "/a?q", "?q", "#f"):
                out.append(pre + h + post)
    return out

# ------------------------------------------------------------------ histories
def hist(steps):
    """steps: list of tuples ('p',k,text) ('a',k,i,j,opt) ('r',k,i,j,mode) ('n',k,mask) ('o',k) ('e',k,i) ('f',k)"""
    out = []
    for s in steps:
        op = s[0]
        if op == 'p': out.append("p%d=%s" % (s[1], enc_s(s[2]) if isinstance(s[2], str) else s[2]))
        elif op == 'v': out.append("v%d=%d,%d,%s" % (s[1], s[3], s[4], enc_s(s[2]) if isinstance(s[2], str) else s[2]))   # ('v', k, text, off, len)
        elif op in ('a', 'r'): out.append("%s%d=%d,%d,%d" % (op, s[1], s[2], s[3], s[4]))
        elif op == 'n': out.append("n%d=%d" % (s[1], s[2]))
        elif op == 'e': out.append("e%d=%d" % (s[1], s[2]))
        else: out.append("%s%d" % (op, s[1]))
    return "hist " + " ".join(out)

class Obj:
    """a URI object as printed by the drivers (U line)"""
    def __init__(self, words):
        # words: after 'U'
        self.scheme, self.userInfo, self.hostText, self.ip4, self.ip6, self.ipFuture, self.port = words[0:7]
        self.abs = words[7]; self.owner = words[8]; n = int(words[9])
        self.segs = words[10:10 + n]
        self.query, self.fragment, self.tail = words[10 + n:13 + n]
        self.nwords = 13 + n
    def key(self):
        """component-wise identity (owner flag and tail excluded)"""
        return (self.scheme, self.userInfo, self.hostText if (self.ip4 == "-" and self.ip6 == "-") else "*", self.ip4, self.ip6,
                self.ipFuture, self.port, self.abs, tuple(self.segs), self.query, self.fragment)
    def has_host(self):
        return not (self.hostText == "-" and self.ip4 == "-" and self.ip6 == "-" and self.ipFuture == "-")

def parse_hist(line):
    """-> (steps, end) where each step is dict(rc=int, obj=Obj|None, text=field|None, mask=int|None) or dict(eq=0/1) or dict(skip=True)"""
    parts = line.split(" | ")
    if parts[0] != "hist": return None, None
    steps = []
    for p in parts[1:-1]:
        w = p.split()
        if not w: steps.append({"bad": p}); continue
        if w[0] in ("skip", "freed", "badslot", "badop"): steps.append({"skip": True, "what": w[0]}); continue
        if w[0].startswith("eq="): steps.append({"eq": int(w[0][3:]), "ro": "!ro" not in p}); continue
        if "!" in p: steps.append({"bad": p}); continue
        rc = int(w[0])
        if rc != 0 or w[1] != "U": steps.append({"rc": rc, "obj": None, "text": None, "mask": None}); continue
        o = Obj(w[2:])
        rest = w[2 + o.nwords:]
        d = {"rc": 0, "obj": o, "text": None, "mask": None}
        for x in rest:
            if x.startswith("T="): d["text"] = x[2:]
            if x.startswith("M="): d["mask"] = int(x[2:])
        steps.append(d)
    end = parts[-1].split()
    e = {"live": None, "bad": None}
    for x in end:
        if x.startswith("live="): e["live"] = int(x[5:])
        if x.startswith("bad="): e["bad"] = int(x[4:])
    return steps, e
