"""C07 — URIs produced by the library keep their meaning when written and read back; structure well formed."""
import json
import lib, uris
from lib import enc, enc_s, dec, show

PID = "C07"

def path_text(o):
    segs = ["" if s == "_" else s for s in o.segs]
    body = ".2f.".join(segs) if segs else ""
    # join hex-encoded segments with '/' (2f); empty segments contribute nothing between separators
    parts = []
    for i, s in enumerate(segs):
        if i > 0: parts.append("2f")
        if s: parts.append(s)
    lead = ["2f"] if (o.abs == "1" or (o.has_host() and segs)) else []
    return ".".join(lead + parts)

def meaning(o):
    host = o.hostText if (o.ip6 == "-") else "ip6:" + o.ip6
    # the IPv4 octets are not compared: a registered name whose normal form happens to be a dotted quad
    # ("%31.2.3.4" -> "1.2.3.4") keeps its text, which is all the property speaks of; the host text is compared
    return (o.scheme, o.has_host(), o.userInfo, host if o.has_host() else "-", o.ipFuture, o.port, path_text(o), o.query, o.fragment)

def gen_histories(chk, mdl, n):
    r = chk.rng
    texts = uris.valid_texts(mdl, uris.small_texts(3, queries=(None,))) + \
            uris.valid_texts(mdl, uris.small_texts(2, alphabet=uris.SEG_FULL, auths=(None, "//H%41", "//u@[::1]:8", "//1.2.3.4", "//[vF.x]", "//%31.2.3.4", "//[::A:1.2.3.4]"), schemes=(None, "S"), queries=(None, "%7e"), frags=(None, "F"))) + \
            uris.valid_texts(mdl, uris.small_texts(3, alphabet=["", "..", "a", "b:c"], auths=(None, "//", "//h"), schemes=(None, "s"), queries=(None,))) + \
            uris.valid_texts(mdl, uris.small_texts(3, alphabet=[".", "..", ":b", ":", "x"], auths=(None,), schemes=(None, "s"), queries=(None,)))
    deg = uris.valid_texts(mdl, uris.degenerate_texts() + uris.long_ip6_texts())
    texts += deg
    # a ':' behind every kind of character, in the segment that a kept "." / a "./" guard has to protect
    colon = [pre + sg + post for sg in uris.COLON_SEGS for pre in ("./", "x/../", "%2E/", "s://h/a/", "s:/", "", "../") for post in ("", "/t", "/..", "?q")]
    texts += uris.valid_texts(mdl, colon)
    abs_texts = [t for t in texts if t[:2].lower() == "s:"]
    out = []
    # fixed part: every small reference with dot segments goes through normalize -> resolve -> normalize -> create reference -> make owner
    tricky = [t for t in texts if ("." in t.split("?")[0].split("/") or ".." in t.split("?")[0].split("/")) and len(t) <= 12]
    tricky = [t for t in colon if t in set(texts) and t[:2] in ("./", "x/", "%2")] + tricky
    bases = ["s:/x/y", "s://h/x/y", "s:///x", "s:x/y"]
    for k, t in enumerate(tricky[: max(200, n // 10) + 200]):
        b = bases[k % len(bases)]
        out.append(uris.hist([('p', 0, t), ('p', 1, b), ('n', 0, 8 if k % 2 else 63), ('a', 2, 0, 1, k % 2), ('n', 2, 63), ('r', 3, 2, 1, (k // 2) % 2), ('o', 3), ('r', 4, 1, 2, 0)]))
    # every IPv4 octet value in every position (the text written for an address comes from the octets, not from the host text):
    # as a parsed URI made owner and normalized, and as the authority a reference brings into a resolution and out of a reference creation
    for v in range(256):
        h = "%d.%d.%d.%d" % (v, 255 - v, (v * 7 + 3) % 256, v)
        out.append(uris.hist([('p', 0, "s://u@" + h + ":8/a/b"), ('o', 0), ('n', 0, 63), ('p', 1, "//" + h + "/c"), ('p', 2, "s://x/y"), ('a', 3, 1, 2, 0), ('r', 4, 3, 2, 0), ('o', 4)]))
    # results of a resolution whose path begins with an empty segment without being absolute (a host-less rootless base, a reference
    # that climbs out of it) and still holds percent-encoded dot segments: only the normalization that follows decodes and removes them
    for segs in list(__import__("itertools").product(["", "..", "%2E%2E", "%2e", "x"], repeat=4)) + list(__import__("itertools").product(["", "..", "%2E%2E", "x"], repeat=5)) \
            + [("..", "", "x", "%2E%2E", "", "y"), ("..", "", "x", "%2e", "", "y"), ("..", "", "", "x", "%2E%2E", "y")]:
        ref = "/".join(segs)
        if not ref or ref.startswith("/") or "%" not in ref or "" not in segs[1:]: continue
        for k, b in enumerate(("s:a/b", "s:a", "s:/a/b", "s://h/a/b")):
            if (len(out) + k) % (3 if n < 20000 else 1): continue
            out.append(uris.hist([('p', 0, ref), ('p', 1, b), ('a', 2, 0, 1, 0), ('n', 2, 8), ('n', 2, 63), ('o', 2)]))
    for _ in range(n):
        steps = []
        L = r.choice([3, 5, 8, 12])
        live = set()
        steps.append(('p', 0, r.choice(texts))); steps.append(('p', 1, r.choice(abs_texts))); live |= {0, 1}
        while len(steps) < L:
            k = r.random()
            slot = r.randrange(8)
            if k < 0.2: steps.append(('p', slot, r.choice(texts))); live.add(slot)
            elif k < 0.45 and len(live) >= 2:
                i, j = r.sample(sorted(live), 2); dst = r.choice([s for s in range(8) if s not in (i, j)])
                steps.append(('a', dst, i, j, r.randrange(2))); live.add(dst)
            elif k < 0.6 and len(live) >= 2:
                i, j = r.sample(sorted(live), 2); dst = r.choice([s for s in range(8) if s not in (i, j)])
                steps.append(('r', dst, i, j, r.randrange(2))); live.add(dst)
            elif k < 0.85 and live:
                steps.append(('n', r.choice(sorted(live)), r.choice([63, 63, 8, 8, 1, 2, 4, 16, 32, r.randrange(64), 4294967295, 64, 2147483648, 4294967232])))
            elif k < 0.93 and live: steps.append(('o', r.choice(sorted(live))))
            elif k < 0.97 and len(live) >= 2:
                i, j = r.sample(sorted(live), 2); steps.append(('e', i, j))
            elif live:
                s_ = r.choice(sorted(live)); steps.append(('f', s_)); live.discard(s_)
        out.append(uris.hist(steps))
    return out

def run(chk):
    import os
    extra = tuple(x for x in ("C07norm", "C07ops") if os.path.exists(os.path.join(lib.COQ, "Props", x + ".v")))
    proofs = lib.check_proofs(PID, extra_props=extra)
    exes = lib.build_impl(); mdl = lib.build_model()
    fnd = lib.Findings(PID)
    hreq = gen_histories(chk, mdl, 6000 if chk.tier == "quick" else 150000)
    model = lib.run_lines(mdl, hreq)
    nontrivial = set(); corr = []; ops = {}
    for fl, stride in {"A": 1, "W": 1, "A_asan": 4, "W_asan": 6}.items():
        idx = [i for i in range(len(hreq)) if i % stride == 0]
        impl = lib.run_lines(exes[fl], [hreq[i] for i in idx])
        chk.cov["evaluations"] += len(idx); chk.cov["traces_validated_against_impl"] += len(idx)
        produced = []     # (history index, step index, object, text)
        for i, o in zip(idx, impl):
            if o != model[i]: corr.append((i, fl, o))
            steps, end = uris.parse_hist(o)
            if "!src" in o:
                chk.violation("a text handed to the parser was written to by a later operation", {"request": hreq[i], "build": fl, "impl": o}); continue
            if steps is None or end["live"] != 0 or end["bad"] != 0:
                chk.violation("crash or memory not fully returned after the history: " + o[-160:], {"request": hreq[i], "build": fl, "impl": o}); continue
            toks = hreq[i].split()[1:]
            for si, s in enumerate(steps):
                if s.get("obj") is not None: s["obj"].step_tok = toks[si]
            for si, s in enumerate(steps):
                if "bad" in s:
                    chk.violation("malformed object (half-NULL or reversed range, or tail not the last node): " + s["bad"][:120], {"request": hreq[i], "step": si, "build": fl, "impl": o}); break
                if s.get("obj") is not None:
                    ob = s["obj"]
                    if fl == "A": ops[toks[si][0]] = ops.get(toks[si][0], 0) + 1
                    if ob.tail != "ok": chk.violation("pathTail is not the last path node", {"request": hreq[i], "step": si, "build": fl, "impl": o})
                    elif ob.has_host() and ob.abs == "1": chk.violation("a host coexists with the absolute-path flag", {"request": hreq[i], "step": si, "build": fl, "impl": o})
                    else: produced.append((i, si, ob, s["text"], o))
        # read every produced text back
        texts = sorted(set(p[3] for p in produced))
        back = dict(zip(texts, lib.run_lines(exes[fl], ["parse %s 3" % t for t in texts])))
        chk.cov["evaluations"] += len(texts)
        tainted = {}      # history index -> slots holding an object that a normalization step left in a defect shape
        for i, si, ob, t, o in produced:
            b = back[t]
            tok = ob.step_tok; op = tok[0]; tslots = tainted.setdefault(i, set())
            dst = int(tok[1:].split("=")[0]) if tok[1:].split("=")[0].isdigit() else None
            args = [int(x) for x in tok.split("=")[1].split(",")[:2]] if op in ("a", "r") else []
            excusable = (op == "n") or (op == "o" and dst in tslots) or any(a in tslots for a in args)
            why = None
            if not b.startswith("parse 0 "): why = "the recomposed text %s is not a valid URI reference" % show(t)
            else:
                pb = uris.Obj(b.split()[4:])
                if meaning(pb) != meaning(ob): why = "reading back %s gives different components" % show(t)
            if why:
                shape = None
                if not ob.has_host() and ob.scheme == "-" and ob.abs == "0" and ob.segs and "3a" in ob.segs[0].split("."): shape = "c08_rel_exposes_colon"
                if shape and excusable and o == model[i] and fnd.covers(shape, {"history": hreq[i], "step": si}):
                    if dst is not None: tslots.add(dst)
                    continue
                chk.violation(why, {"request": hreq[i], "step": si, "build": fl, "impl": o, "text": show(t), "read_back": b, "shape": shape,
                                    "note": None if not shape else "the shape is a listed finding only for a normalization step (or a step fed with such an object); this step is %s" % tok})
            else:
                if dst is not None: tslots.discard(dst)
                if fl == "A": nontrivial.add(t)
    if corr and not chk.violations:
        i, fl, o = corr[0]
        chk.violation("correspondence broken: model and implementation disagree on a history (%d cases)" % len(corr),
                      {"correspondence": "Model/* vs src (history of parse/resolve/create-reference/normalize/make-owner steps)", "request": hreq[i], "build": fl, "impl": o, "model": model[i]}, found_input=False)
    still = {}
    for f in fnd.items:
        o = lib.run_lines(exes["A"], [f["witness_args"][0]])[0]
        steps, _ = uris.parse_hist(o)
        last = [s for s in steps if s.get("obj")][-1]
        b = lib.run_lines(exes["A"], ["parse %s 3" % last["text"]])[0]
        still[f["shape"]] = (not b.startswith("parse 0 ")) or meaning(uris.Obj(b.split()[4:])) != meaning(last["obj"])
    fnd.report(chk, still)
    chk.cov["distinct_nontrivial"] = len(nontrivial)
    chk.cov["rule"] = "random histories of 3-12 steps over 8 URI slots (parse, resolve with both options, create reference in both modes, normalize with any mask, make owner, compare, free) from small-scope and percent/case/IP texts; after every step the object is recomposed, the text parsed again and compared component-wise; distinct by produced text"
    chk.cov["distribution"] = {"histories": len(hreq), "objects_by_producing_step(A)": ops, "known_finding_hits": fnd.hits}
    chk.cov["samples"] = [{"request": hreq[i], "model": model[i]} for i in (0, 1)]
    return chk.finish(proofs)

def replay(path):
    r = json.load(open(path)); exes = lib.build_impl(); mdl = lib.build_model()
    rq = r.get("request")
    if not rq: print(json.dumps(r, indent=1)); return 0
    print("request:", rq); print("model  :", lib.run_lines(mdl, [rq])[0])
    for fl, exe in exes.items(): print("impl %-7s:" % fl, lib.run_lines(exe, [rq])[0])
    return 0
