"""C20 — concurrent calls on distinct objects are safe; no mutable shared state."""
import json, os, re, subprocess
import lib, parsesuite
from lib import enc, enc_s, dec, show

PID = "C20"

def writable_symbols(objdir):
    """symbols of the library objects that live in a writable section (.data*, .bss*, not .data.rel.ro*)"""
    out = []
    for f in sorted(os.listdir(objdir)):
        if not f.endswith(".o"): continue
        txt = subprocess.run(["objdump", "-t", os.path.join(objdir, f)], stdout=subprocess.PIPE).stdout.decode()
        for ln in txt.split("\n"):
            m = re.match(r"^[0-9a-f]+\s+(\S+)\s+(\S*)\s*(\.\S+)\s+([0-9a-f]+)\s+(\S+)$", ln.strip())
            if not m: continue
            flags, kind, sec, size, name = m.groups()
            parts = ln.split()
            sec = [p for p in parts if p.startswith(".")][0] if any(p.startswith(".") for p in parts) else ""
            name = parts[-1]; size = int(parts[-2], 16) if re.match(r"^[0-9a-f]+$", parts[-2]) else 0
            if name.startswith("."): continue            # section symbols
            if (sec.startswith(".data") or sec.startswith(".bss") or sec.startswith(".tbss") or sec.startswith(".tdata")) and not sec.startswith(".data.rel.ro") and size > 0:
                out.append((f, sec, name, size))
    return out

def run(chk):
    proofs = lib.check_proofs(PID)
    fnd = lib.Findings(PID)
    q = chk.tier == "quick"
    exes = lib.build_impl(flavours=("A", "W", "A_tsan") + (() if q else ("W_tsan",)), driver="threads.c", tag="thr")
    # (a) writable global or static data in the library objects
    objdir = os.path.join(os.path.dirname(exes["A"]), "obj_A")
    syms = writable_symbols(objdir)
    chk.cov["evaluations"] += len(os.listdir(objdir))
    for f, sec, name, size in syms:
        if fnd.covers("c20_writable_symbol:" + name, {"object": f, "section": sec, "size": size}): continue
        chk.violation("the library holds writable global/static data: %s (%d bytes, section %s, %s)" % (name, size, sec, f),
                      {"symbol": name, "object": f, "section": sec, "size": size, "how": "objdump -t on the freshly built objects"})
    # (b) threads with shared read-only inputs; per-thread results equal the single-threaded run
    texts = ["HTTP://u@h:8/a/../b?x=1&y=%41#f", "../c/./d?q", "//[::1]/x?k", "a/b c", "s:a/..//b", "", "/.//x"]
    texts = [enc_s(t) for t in texts] + parsesuite.random_uris(chk.rng, 40 if q else 600)
    bases = [enc_s("s://h/a/b?q"), enc_s("S://U@[::1]:8/%41/./b/"), enc_s("http://[v7.Fe:Ed]/x/y"), enc_s("s://[2001:DB8::A]/%7e")]
    reqs = ["thr %d %d %s %s" % (8 if i % 3 else 16, 150 if q else 1500, t, bases[i % 4]) for i, t in enumerate(texts)]
    digests = {}
    nontrivial = set()
    for fl, exe in exes.items():
        sel = reqs if not fl.endswith("tsan") else reqs[:12 if q else 120]
        out = lib.run_lines(exe, sel, chunks=4, env={"TSAN_OPTIONS": "exitcode=66 halt_on_error=1"})
        chk.cov["evaluations"] += len(out)
        for rq, o in zip(sel, out):
            if "!write-to-shared-read-only-input" in o:
                chk.violation("the library wrote into an input that the threads share read-only (the reference text, the base text or the base URI structure; the page was write-protected)", {"request": rq, "build": fl, "impl": o}); continue
            if not o.startswith("thr digest="):
                chk.violation("data race reported by ThreadSanitizer, or crash, while threads shared read-only inputs: " + o[:300], {"request": rq, "build": fl, "impl": o}); continue
            kv = dict(x.split("=") for x in o.split()[1:])
            if kv["mismatches"] != "0" or kv["errors"] != "0":
                chk.violation("%s thread(s) obtained results that differ from the single-threaded run" % kv["mismatches"], {"request": rq, "build": fl, "impl": o})
            key = (rq, fl[0])
            if key in digests and digests[key] != kv["digest"]:
                chk.violation("the same workload gives different results in two builds of the same character type", {"request": rq, "build": fl, "impl": o, "other": digests[key]})
            digests[key] = kv["digest"]
            nontrivial.add(rq)
    still = {}
    present = set(n for _, _, n, _ in syms)
    for f in fnd.items:
        still[f["shape"]] = f["shape"].split(":", 1)[1] in present
    fnd.report(chk, still)
    chk.cov["distinct_nontrivial"] = len(nontrivial) + len(syms)
    chk.cov["rule"] = ("(a) symbol tables of the freshly built library objects: every symbol of non-zero size in a writable section (.data*, .bss*, TLS; .data.rel.ro excluded) must be a listed exception; "
                       "(b) 8-16 threads x %d iterations of a mixed workload (parse, recompose, resolve against a shared base, mask query, normalize, compare with the shared base, create reference, make owner, compose from a shared query list, dissect, escape, unescape), "
                       "digest of every thread equal to the single-threaded digest; the same under ThreadSanitizer" % (150 if q else 1500))
    chk.cov["distribution"] = {"writable_symbols": [s[2] for s in syms], "thread_requests": len(reqs), "known_finding_hits": fnd.hits}
    chk.cov["samples"] = [{"request": reqs[0]}, {"writable_symbol": syms[0][2] if syms else None}]
    chk.assumptions = ["data races are runtime behaviour: the theorem is about footprint-disciplined programs in general; that the C code is disciplined is observed (symbol table, thread digests, ThreadSanitizer)"]
    return chk.finish(proofs)

def replay(path):
    r = json.load(open(path))
    print(json.dumps(r, indent=1))
    rq = r.get("request")
    if rq:
        exes = lib.build_impl(flavours=("A", "W", "A_tsan"), driver="threads.c", tag="thr")
        for fl, exe in exes.items(): print(fl, lib.run_lines(exe, [rq], chunks=1, env={"TSAN_OPTIONS": "exitcode=66"})[0][:300])
    return 0
