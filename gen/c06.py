"""C06 — reference resolution follows RFC 3986 section 5.2."""
import json, os
import lib, uris
from lib import enc, enc_s, dec, show

PID = "C06"
SHAPES = {"4": "c06_unguarded_dslash", "5": "c06_spurious_dot_with_host", "12": "c06_lone_slash"}

def gen_pairs(chk, mdl):
    q = chk.tier == "quick"
    refs = uris.valid_texts(mdl, uris.small_texts(3 if q else 4, queries=(None,)))
    refs += uris.valid_texts(mdl, uris.small_texts(1, alphabet=uris.SEG_FULL, queries=(None, "y"), frags=(None, "f")))
    refs += ["s:", "S:a", "g:h", "s://u@[::1]:8/a/../b", "//u@[::1]:8", "?y", "#f", "//1.2.3.4/..", "s:?y#f", "s:a:b", "./b:c", "./", ".//", ".///a"]
    bases = [t for t in uris.valid_texts(mdl, uris.small_texts(2 if q else 3, queries=(None, "q"))) if t.startswith("s:")]
    bases += ["s://u@[::1]:8/a/b?q", "s://1.2.3.4", "s://h/a/b/c/d", "S://H/%41", "s:a/b/c", "s:/a/b/c", "s://h#f", "//h/a", "a/b", ""]
    # schemes of equal length that share a prefix / differ in one place (identical-scheme option: "equal" must mean every character)
    refs += ["http:g", "hxxp:g", "httq:g/../x", "htTp:g", "sa:x", "sb:x", "sa:", "as:x", "http://b/x", "httpx:g", "htt:g"]
    bases += ["http://a/b/c/d;p?q", "sa://h/a/b", "sa:/a/b", "HTTP://a/b/c"]
    # RFC 3986 5.4.1 / 5.4.2 reference examples
    refs += ["g:h", "g", "./g", "g/", "/g", "//g", "?y", "g?y", "#s", "g#s", "g?y#s", ";x", "g;x", "g;x?y#s", "", ".", "./", "..", "../", "../g", "../..", "../../", "../../g",
             "../../../g", "../../../../g", "/./g", "/../g", "g.", ".g", "g..", "..g", "./../g", "./g/.", "g/./h", "g/../h", "g;x=1/./y", "g;x=1/../y", "g?y/./x", "g?y/../x", "g#s/./x", "g#s/../x", "http:g"]
    refs = sorted(set(refs)); bases = sorted(set(bases))
    return refs, bases

def run(chk):
    extra = tuple(x for x in ("C06text",) if os.path.exists(os.path.join(lib.COQ, "Props", x + ".v")))
    proofs = lib.check_proofs(PID, extra_props=extra)
    exes = lib.build_impl(); mdl = lib.build_model()
    fnd = lib.Findings(PID)
    refs, bases = gen_pairs(chk, mdl)
    pairs = [(r, b, c) for b in bases for r in refs for c in (0, 1)]
    if chk.tier == "quick" and len(pairs) > 160000:
        # the scheme-comparison and RFC 5.4 pairs are always kept
        keepb = {"http://a/b/c/d;p?q", "sa://h/a/b", "sa:/a/b", "HTTP://a/b/c"}
        must = [p for p in pairs if p[1] in keepb]
        pairs = must + chk.rng.sample(pairs, 160000 - len(must))
    reqs = ["addbase %d P %s P %s" % (c, enc_s(r), enc_s(b)) for r, b, c in pairs]
    sreqs = ["spec_resolve %d %s %s" % (1 - c, enc_s(b), enc_s(r)) for r, b, c in pairs]
    model = lib.run_lines(mdl, reqs)
    spec = lib.run_lines(mdl, sreqs)
    nontrivial = set(); corr = []; corner = 0; relbase = 0
    flavours = {"A": range(len(reqs)), "W": range(len(reqs)), "A_asan": range(0, len(reqs), 7), "W_asan": range(3, len(reqs), 11)}
    suspects = []
    for fl, idx in flavours.items():
        idx = list(idx)
        sub = [reqs[i] for i in idx]
        impl = lib.run_lines(exes[fl], sub)
        chk.cov["evaluations"] += len(sub); chk.cov["traces_validated_against_impl"] += len(sub)
        for i, o in zip(idx, impl):
            sp_text, sp_corner = spec[i].split()
            w = o.split()
            if o.startswith("!") or len(w) < 3 or w[0] != "addbase":
                chk.violation("crash / malformed result: " + o[:160], {"request": reqs[i], "build": fl, "impl": o}); continue
            if " ro=1" not in o or not o.endswith(" live=0 bad=0"):
                chk.violation("read-only argument modified or memory not balanced", {"request": reqs[i], "build": fl, "impl": o}); continue
            if sp_text == "-":
                relbase += (fl == "A")
                if w[1] != "5": chk.violation("a base without scheme is not rejected with URI_ERROR_ADDBASE_REL_BASE", {"request": reqs[i], "build": fl, "impl": o})
            elif w[1] != "0":
                chk.violation("resolution against an absolute base failed (rc=%s)" % w[1], {"request": reqs[i], "build": fl, "impl": o})
            else:
                got = o.split(" T=")[1].split()[0]
                if got != sp_text:
                    if sp_corner == "1": corner += (fl == "A")
                    else: suspects.append((i, fl, o, got, sp_text))
                if fl == "A": nontrivial.add((pairs[i][0], pairs[i][1], pairs[i][2] if pairs[i][0].startswith("s:") else 0))
            if o != model[i]: corr.append((i, fl, o))
    # classify the oracle failures
    shp = lib.run_lines(mdl, ["shape_c06 %s %s" % (sp, got) for (_, _, _, got, sp) in suspects])
    for (i, fl, o, got, sp), sh in zip(suspects, shp):
        name = SHAPES.get(sh)
        r, b, c = pairs[i]
        # a listed finding excuses a failure only where the frozen model fails in the same way on this very input
        if name and o == model[i] and fnd.covers(name, {"base": b, "reference": r}): continue
        chk.violation("resolution result differs from RFC 3986 5.2.2: got %s, expected %s" % (show(got), show(sp)),
                      {"request": reqs[i], "base": b, "reference": r, "compat_option": c, "build": fl, "impl": o, "expected_text": show(sp), "shape": name})
    wp = [(enc_s(r), enc_s(b)) for r, b, c in (pairs[:: max(1, len(pairs) // 4000)])]
    lib.wrapper_check(chk, exes, wp, ("addbase", "addbaseex"), "uriAddBaseUri / uriAddBaseUriEx do not behave like uriAddBaseUriExMm with the documented defaults (%s)")
    if corr and not chk.violations:
        i, fl, o = corr[0]
        chk.violation("correspondence broken: Model/Resolve.v and uriAddBaseUriExMm disagree (%d cases)" % len(corr),
                      {"correspondence": "Model/Resolve.v + Model/Common.v vs src/UriResolve.c, src/UriCommon.c", "request": reqs[i], "build": fl, "impl": o, "model": model[i]}, found_input=False)
    # replay the witnesses of the listed findings
    still = {}
    for f in fnd.items:
        wb, wr = f["witness_args"]
        o = lib.run_lines(exes["A"], ["addbase 0 P %s P %s" % (enc_s(wr), enc_s(wb))])[0]
        sp = lib.run_lines(mdl, ["spec_resolve 1 %s %s" % (enc_s(wb), enc_s(wr))])[0].split()[0]
        still[f["shape"]] = (" T=" in o and o.split(" T=")[1].split()[0] != sp)
    fnd.report(chk, still)
    chk.cov["distinct_nontrivial"] = len(nontrivial)
    chk.cov["rule"] = ("small-scope exhaustive: references with paths of <= %d segments over {'', '.', '..', 'a', 'b:c'} x {no authority, //h} x {scheme, none} x {absolute, rootless} plus percent/query/fragment variants; "
                       "bases likewise with <= %d segments and a query; both option values; distinct by (reference, base, option when it matters); unspecified rootless corner excluded from the oracle" % ((3, 2) if chk.tier == "quick" else (4, 3)))
    chk.cov["distribution"] = {"references": len(refs), "bases": len(bases), "pairs": len(pairs), "relative_base_rejected": relbase,
                               "unspecified_corner_skipped": corner, "known_finding_hits": fnd.hits}
    chk.cov["samples"] = [{"request": reqs[i], "model": model[i], "rfc_text": show(spec[i].split()[0])} for i in (0, len(reqs) // 2, len(reqs) - 1)]
    chk.cov["exhaustive"] = chk.tier != "quick" or len(pairs) < 160000
    return chk.finish(proofs)

def replay(path):
    r = json.load(open(path)); exes = lib.build_impl(); mdl = lib.build_model()
    rq = r.get("request")
    if not rq: print(json.dumps(r, indent=1)); return 0
    print("request:", rq); print("model  :", lib.run_lines(mdl, [rq])[0])
    for fl, exe in exes.items(): print("impl %-7s:" % fl, lib.run_lines(exe, [rq])[0])
    return 0
