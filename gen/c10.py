"""C10 — reference creation is the inverse of reference resolution."""
import json, os
import lib, uris
from lib import enc, enc_s, dec, show

PID = "C10"
FAMILY = set()

def gen(chk, mdl):
    q = chk.tier == "quick"
    A = ["a", "b", "", "c:d"]
    srcs = [t for t in uris.valid_texts(mdl, uris.small_texts(3 if q else 4, alphabet=A, auths=(None, "//h"), schemes=("s",), queries=(None,)))]
    srcs += ["s://h/a?q", "s://h/a#f", "s://h?q", "s://u@h/a", "s://h:8/a", "s://g/a", "t://h/a", "s://[::1]/a", "s://1.2.3.4/a", "s://[v1.x]/a", "//h/a", "a", "", "s:a?q#f"]
    bases = [t for t in uris.valid_texts(mdl, uris.small_texts(2 if q else 3, alphabet=A, auths=(None, "//h"), schemes=("s",), queries=(None, "q")))]
    bases += ["s://u@h/a", "s://h:8/a", "s://[::1]/x", "s://1.2.3.4/x", "s://[v1.x]/x", "//h/a", "a/b", ""]
    # authorities that differ in one place only: every byte position of an IPv4 / IPv6 address, the last character of a
    # registered name or IPvFuture literal, user info, port (the authority comparison must see all of them)
    fam = ["s://10.0.0.1", "s://10.0.0.2", "s://10.0.3.1", "s://10.4.0.1", "s://5.0.0.1",
           "s://[2001:db8:0:1::10]", "s://[2001:db8:0:1::20]", "s://[2001:db8:0:1:0:0:1:10]", "s://[2001:db8:0:2::10]", "s://[2002:db8:0:1::10]", "s://[::ffff:1.2.3.4]", "s://[::ffff:1.2.3.5]",
           "s://[v1.abc]", "s://[v1.abd]", "s://[v2.abc]", "s://v1.abc", "s://V1.ABC", "s://u@v1.abc", "s://u@[v1.abc]", "s://hostname", "s://hostnamf", "s://iostname", "s://u@hostname", "s://v@hostname", "s://hostname:80", "s://hostname:81",
           "s://hostname:080", "s://hostname:0", "s://hostname:", "s://hostname:00", "s://hostname:800", "s://1.2.3.4:0", "s://1.2.3.4:", "s://1.2.3.4:00"]     # port texts, not port numbers
    for h in fam:
        for pth in ("/app/index.html", "/app/login", ""):
            srcs.append(h + pth); bases.append(h + pth)
    # a colon in the first segment of what is left of the source path: every kind of character in front of it
    for sg in uris.COLON_SEGS:
        for pre, b in (("s://h/a/", "s://h/a/b"), ("s://h/", "s://h/x"), ("s:/a/", "s:/a/b"), ("s://h/a/", "s://h/a/"), ("s://h/a/b/", "s://h/a/c/d")):
            srcs += [pre + sg, pre + sg + "/t", pre + sg + "?q"]; bases.append(b)
    # dot segments in source and base (the property quantifies over all absolute URIs, not only normalised ones)
    dotted = uris.valid_texts(mdl, uris.small_texts(3, alphabet=["a", ".", "..", "b"], auths=("//h",), schemes=("s",), queries=(None,)))
    srcs += dotted; bases += dotted
    global FAMILY
    FAMILY = set(h + pth for h in fam for pth in ("/app/index.html", "/app/login", ""))
    for sg in uris.COLON_SEGS:
        for pre, b in (("s://h/a/", "s://h/a/b"), ("s://h/", "s://h/x"), ("s:/a/", "s:/a/b"), ("s://h/a/", "s://h/a/"), ("s://h/a/b/", "s://h/a/c/d")):
            FAMILY |= {pre + sg, pre + sg + "/t", pre + sg + "?q", b}
    return sorted(set(srcs)), sorted(set(bases))

def norm_text(t):
    """empty path under an authority == '/' : compare texts with that identification"""
    return t

def run(chk):
    extra = tuple(x for x in ("C10text",) if os.path.exists(os.path.join(lib.COQ, "Props", x + ".v")))
    proofs = lib.check_proofs(PID, extra_props=extra)
    exes = lib.build_impl(); mdl = lib.build_model()
    fnd = lib.Findings(PID)
    srcs, bases = gen(chk, mdl)
    H = uris.hist
    trip = [(s, b, m) for b in bases for s in srcs for m in (0, 1)]
    if chk.tier == "quick" and len(trip) > 90000:
        # the authority family (hosts that differ in one place, a registered name spelled like a literal) is always kept whole
        fam_trip = [t for t in trip if t[0] in FAMILY and t[1] in FAMILY]
        trip = chk.rng.sample(trip, 90000) + fam_trip
    # slot 0 = S, 1 = B, 2 = reference, 3 = resolved back; then dot-normalize (mask PATH) slot 3 and a copy of S (slot 4)
    reqs = [H([('p', 0, s), ('p', 1, b), ('r', 2, 0, 1, m), ('a', 3, 2, 1, 0), ('n', 3, 8), ('p', 4, s), ('n', 4, 8), ('e', 3, 4)]) for s, b, m in trip]
    # source and base as two views of ONE buffer (same first pointer, the shorter ending inside a component of the longer):
    # whether two components are equal must never depend on where they are stored
    for t in ["s://example.com/page.html", "s://u@h.org:8080/v10/x", "s://[::1]:80/a/bc", "s:/a/b/cd"]:
        for ls in range(len(t) + 1):
            for lb in range(len(t) + 1):
                if ls == lb or abs(ls - lb) > 6: continue
                for m in (0, 1):
                    trip.append((t[:ls], t[:lb], m))
                    reqs.append(H([('v', 0, t, 0, ls), ('v', 1, t, 0, lb), ('r', 2, 0, 1, m), ('a', 3, 2, 1, 0), ('n', 3, 8), ('p', 4, t[:ls]), ('n', 4, 8), ('e', 3, 4)]))
    model = lib.run_lines(mdl, reqs)
    shapes = lib.run_lines(mdl, ["shape_c10 %d %s %s" % (m, enc_s(s), enc_s(b)) for s, b, m in trip])
    nontrivial = set(); corr = []
    stats = {"rel_base": 0, "rel_source": 0, "scheme_differs": 0, "roundtrip_ok": 0}
    for fl, stride in {"A": 1, "W": 1, "A_asan": 9, "W_asan": 13}.items():
        idx = [i for i in range(len(reqs)) if i % stride == 0]
        impl = lib.run_lines(exes[fl], [reqs[i] for i in idx])
        chk.cov["evaluations"] += len(idx); chk.cov["traces_validated_against_impl"] += len(idx)
        for i, o in zip(idx, impl):
            s, b, m = trip[i]
            steps, end = uris.parse_hist(o)
            if steps is None or any("bad" in x for x in steps) or end["live"] != 0 or end["bad"] != 0:
                chk.violation("crash, malformed object or unbalanced memory: " + o[-200:], {"request": reqs[i], "build": fl, "impl": o}); continue
            if o != model[i]: corr.append((i, fl, o))
            S, B, ref = steps[0], steps[1], steps[2]
            if S.get("rc") != 0 or B.get("rc") != 0: continue
            def viol(msg):
                sh = shapes[i]
                # attributed to a listed finding only if the frozen model fails in the same way on this input
                if sh != "0" and o == model[i] and fnd.covers("c10_class_" + sh, {"source": s, "base": b, "mode": m}): return
                chk.violation(msg, {"request": reqs[i], "source": s, "base": b, "domain_root_mode": m, "build": fl, "impl": o, "shape": sh})
            # error codes
            if B["obj"].scheme == "-":
                if fl == "A": stats["rel_base"] += 1
                if ref.get("rc") != 6: viol("a base without scheme is not rejected with URI_ERROR_REMOVEBASE_REL_BASE")
                continue
            if S["obj"].scheme == "-":
                if fl == "A": stats["rel_source"] += 1
                if ref.get("rc") != 7: viol("a source without scheme is not rejected with URI_ERROR_REMOVEBASE_REL_SOURCE")
                continue
            if ref.get("rc") != 0: viol("reference creation failed (rc=%s)" % ref.get("rc")); continue
            R = ref["obj"]
            if S["obj"].scheme != B["obj"].scheme:
                if fl == "A": stats["scheme_differs"] += 1
                if ref["text"] != S["text"]: viol("schemes differ but the reference is not the source unchanged")
                continue
            if fl == "A": nontrivial.add((s, b, m))
            # omission rules
            # a scheme-less reference inherits the base's authority: it can reach S only if S has an authority or B has none
            reachable = S["obj"].has_host() or not B["obj"].has_host()
            if R.scheme != "-" and reachable: viol("the reference keeps the scheme although source and base share it and a scheme-less reference can resolve to S"); continue
            if R.scheme != "-":
                if ref["text"] != S["text"]: viol("scheme kept but the reference is not the source")
                continue
            same_auth = (S["obj"].userInfo, S["obj"].hostText, S["obj"].ip4, S["obj"].ip6, S["obj"].ipFuture, S["obj"].port) == \
                        (B["obj"].userInfo, B["obj"].hostText, B["obj"].ip4, B["obj"].ip6, B["obj"].ipFuture, B["obj"].port)
            if same_auth and R.has_host(): viol("the reference keeps the authority although source and base share all of it"); continue
            if m == 1 and same_auth and not (ref["text"] or "").startswith("2f"): viol("domain-root mode: the reference path is not absolute"); continue
            # round trip
            back, Sn, eq = steps[4], steps[6], steps[7]
            if steps[3].get("rc") != 0 or back.get("rc") != 0 or Sn.get("rc") != 0: viol("resolving the reference back failed"); continue
            tb, ts = back["text"], Sn["text"]
            def canon(t, o):   # an empty path under an authority is "/"
                return t + ".2f" if (o.has_host() and not o.segs) and "3f" not in t.split(".") and "23" not in t.split(".") else t
            okeq = (tb == ts) or (back["obj"].key()[:7] == Sn["obj"].key()[:7] and back["obj"].query == Sn["obj"].query and back["obj"].fragment == Sn["obj"].fragment
                                 and back["obj"].has_host() and [x for x in back["obj"].segs] in ([], ["_"]) and [x for x in Sn["obj"].segs] in ([], ["_"]))
            if not okeq: viol("resolve(create_reference(S, B), B) = %s differs from S = %s" % (show(tb), show(ts)))
            elif fl == "A": stats["roundtrip_ok"] += 1
    wp = [(enc_s(s_), enc_s(b_)) for s_, b_, m_ in trip[:: max(1, len(trip) // 4000)]]
    lib.wrapper_check(chk, exes, wp, ("removebase",), "uriRemoveBaseUri does not behave like uriRemoveBaseUriMm with the default manager (%s)")
    if corr and not chk.violations:
        i, fl, o = corr[0]
        chk.violation("correspondence broken: Model/Shorten.v and uriRemoveBaseUriMm disagree (%d cases)" % len(corr),
                      {"correspondence": "Model/Shorten.v vs src/UriShorten.c", "request": reqs[i], "build": fl, "impl": o, "model": model[i]}, found_input=False)
    still = {}
    for f in fnd.items:
        s, b, m = f["witness_args"]
        o = lib.run_lines(exes["A"], [H([('p', 0, s), ('p', 1, b), ('r', 2, 0, 1, int(m)), ('a', 3, 2, 1, 0), ('n', 3, 8), ('p', 4, s), ('n', 4, 8), ('e', 3, 4)])])[0]
        st, _ = uris.parse_hist(o)
        still[f["shape"]] = not (st[4].get("text") == st[6].get("text"))
    fnd.report(chk, still)
    chk.cov["distinct_nontrivial"] = len(nontrivial)
    chk.cov["rule"] = "sources with paths of <= %d segments over {a, b, '', c:d} with and without authority x bases likewise (<= %d segments, optional query), plus authority/scheme variants; both modes; one history per triple (create reference, resolve back, dot-normalize both, compare); non-trivial = same scheme; distinct by (S, B, mode)" % ((3, 2) if chk.tier == "quick" else (4, 3))
    chk.cov["distribution"] = {"sources": len(srcs), "bases": len(bases), "triples": len(trip), **stats, "known_finding_hits": fnd.hits}
    chk.cov["samples"] = [{"request": reqs[i], "model": model[i]} for i in (0, len(reqs) // 2)]
    return chk.finish(proofs)

def replay(path):
    r = json.load(open(path)); exes = lib.build_impl(); mdl = lib.build_model()
    rq = r.get("request")
    if not rq: print(json.dumps(r, indent=1)); return 0
    print("request:", rq); print("model  :", lib.run_lines(mdl, [rq])[0])
    for fl, exe in exes.items(): print("impl %-7s:" % fl, lib.run_lines(exe, [rq])[0])
    return 0
