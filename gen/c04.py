"""C04 — recomposition reproduces the parsed text (IPv6 literals in full lower-case form)."""
import json
import lib, parsesuite, c01
from lib import enc, dec, show

PID = "C04"

def run(chk):
    proofs = lib.check_proofs(PID)
    exes = lib.build_impl(); mdl = lib.build_model()
    c01.check_long(chk, exes)      # references with a component of 32 768 .. 131 073 characters: parse, recompose (borrowed and owned), compare with the input
    nstates, suite, rnd, corpus, narrow, wide = c01.build_inputs(chk, mdl)
    acc = [f for f, o in zip(narrow, lib.run_lines(mdl, ["parse %s 3" % f for f in narrow])) if o.startswith("parse 0")]
    acc = sorted(set(acc + c01.pair_triple_accepted(mdl)))
    wacc = [f for f, o in zip(wide, lib.run_lines(mdl, ["parse %s 3" % f for f in wide])) if o.startswith("parse 0")]
    canon = dict(zip(acc + wacc, lib.run_lines(mdl, ["spec_canon " + f for f in acc + wacc])))
    nontrivial = set(); corr = []; ip6n = 0
    model_cache = {}
    for fl, exe in exes.items():
        strs = acc + (wacc if fl.startswith("W") else [])
        # borrowed: makeowner prints T= twice (before and after the source is destroyed): owned copy too
        reqs = ["makeowner P " + f for f in strs]
        impl = lib.run_lines(exe, reqs)
        need = [r for r in reqs if r not in model_cache]
        for r, o_ in zip(need, lib.run_lines(mdl, need)): model_cache[r] = o_
        model = [model_cache[r] for r in reqs]
        chk.cov["evaluations"] += len(reqs); chk.cov["traces_validated_against_impl"] += len(reqs)
        texts = []
        for f, rq, o, m in zip(strs, reqs, impl, model):
            parts = o.split(" T=")
            if len(parts) != 3 or not o.startswith("makeowner 0"):
                chk.violation("recomposition of a parsed URI failed: " + o[:150], {"request": rq, "build": fl, "impl": o}); texts.append(None); continue
            t1 = parts[1].split()[0]; t2 = parts[2].split()[0]
            texts.append(t1)
            if t1 != canon[f]:
                chk.violation("text of the parsed URI differs from the input (IPv6 in canonical form)", {"request": rq, "input": show(f), "build": fl, "recomposed": show(t1), "expected": show(canon[f])})
            elif t2 != t1:
                chk.violation("owned copy recomposes differently", {"request": rq, "build": fl, "impl": o})
            if o != m: corr.append((rq, fl, o, m))
            if fl == "A":
                nontrivial.add(f)
                if canon[f] != f: ip6n += 1
        # parse the text again: equal to the first
        eq = ["equals P %s P %s" % (f, t) for f, t in zip(strs, texts) if t]
        for rq, o in zip(eq, lib.run_lines(exe, eq)):
            chk.cov["evaluations"] += 1
            if o != "equals 1 1 1":
                chk.violation("parsing the recomposed text gives a URI not equal to the first", {"request": rq, "build": fl, "impl": o})
    if corr and not chk.violations:
        rq, fl, o, m = corr[0]
        chk.violation("correspondence broken: model and implementation disagree on make-owner/recompose (%d cases)" % len(corr),
                      {"correspondence": "Model/Recompose.v + Model/Parse.v vs UriRecompose.c", "request": rq, "build": fl, "impl": o, "model": m}, found_input=False)
    chk.cov["distinct_nontrivial"] = len(nontrivial)
    chk.cov["rule"] = "every text accepted by the model from the C01 input sets; recomposed from the borrowed and from the owned object (source buffers overwritten and freed in between); re-parsed and compared with uriEqualsUri"
    chk.cov["distribution"] = {"accepted": len(acc), "wide_only_accepted": len(wacc), "with_ipv6_literal_rewritten": ip6n}
    chk.cov["samples"] = [{"input": show(f), "expected_text": show(canon[f])} for f in acc[:2] + [x for x in acc if canon[x] != x][:2]]
    return chk.finish(proofs)

def replay(path):
    r = json.load(open(path)); exes = lib.build_impl(); mdl = lib.build_model()
    rq = r.get("request")
    if not rq: print(json.dumps(r, indent=1)); return 0
    print("request:", rq); print("model  :", lib.run_lines(mdl, [rq])[0])
    for fl, exe in exes.items(): print("impl %-7s:" % fl, lib.run_lines(exe, [rq])[0])
    return 0
