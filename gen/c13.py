"""C13 — all memory goes through the supplied manager and is fully returned."""
import json
import lib, uris, c07, parsesuite, qmlib
from lib import enc, enc_s, dec, show

PID = "C13"

def run(chk):
    proofs = lib.check_proofs(PID)
    exes = lib.build_impl(); mdl = lib.build_model()
    ip = lib.build_impl(flavours=("A", "W"), driver="ipose.c", tag="ipose")
    q = chk.tier == "quick"
    # (1) interposition battery: the C library allocator must stay silent while a custom manager is supplied
    texts = ["HTTP://u@h:8/a/../b?x=1&y=%41#f", "//[::1]/x?k", "a/b", "", "s:", "//1.2.3.4", "/a/./b?a=b&c", "s://h/?=&&==", "//[vF.x]?k=v"]
    texts += [lib.show(f) for f in []]
    rnd = parsesuite.random_uris(chk.rng, 600 if q else 20000)
    ireq = ["run %s %s" % (enc_s(t), enc_s("s://h/a/b?q")) for t in texts] + ["run %s" % f for f in rnd]
    bases = ["s:/x/y?z", "s://[::1]/a/"]
    ireq += ["run %s %s" % (f, enc_s(bases[i % 2])) for i, f in enumerate(rnd[:200])]
    nontrivial = set()
    for fl, exe in ip.items():
        out = lib.run_lines(exe, ireq)
        chk.cov["evaluations"] += len(out)
        for rq, o in zip(ireq, out):
            if not o.startswith("run "):
                chk.violation("crash in the manager battery (a foreign pointer passed to the C library?): " + o[:200], {"request": rq, "build": fl, "impl": o}); continue
            kv = dict(x.split("=") for x in o.split()[1:])
            if kv["libc"] != "0": chk.violation("the C library allocator was called %s time(s) during calls that were given a custom memory manager" % kv["libc"], {"request": rq, "build": fl, "impl": o})
            elif kv["live"] != "0": chk.violation("%s block(s) of the custom manager outstanding after the matching release calls" % kv["live"], {"request": rq, "build": fl, "impl": o})
            elif kv["bad"] != "0": chk.violation("a release named a pointer the manager never handed out, or one released before", {"request": rq, "build": fl, "impl": o})
            elif kv["incomplete"] != "0": chk.violation("an incomplete memory manager was not rejected with URI_ERROR_MEMORY_MANAGER_INCOMPLETE before anything was allocated", {"request": rq, "build": fl, "impl": o})
            elif int(kv["default"]) == 0 and rq.split()[1] not in ("_",): pass
            if fl == "A": nontrivial.add(rq)
    # (2) ledger over histories and single operations, against the memory-tier model
    hreq = c07.gen_histories(chk, mdl, 2500 if q else 60000)
    ops = []
    for t in chk.rng.sample(rnd, 300 if q else 5000):
        ops.append("parse %s 5 0 0" % t)
        ops.append("makeowner P %s 0 0" % t); ops.append("normalize 63 0 P %s 0 0" % t); ops.append("normalize 9 1 P %s 0 0" % t)
        ops.append("addbase 0 P %s P %s 0 0" % (t, enc_s("s://u@h:8/a/b?q"))); ops.append("removebase 0 P %s P %s 0 0" % (enc_s("s://u@h:8/a/c/d"), t))
    # the same discipline when an allocation fails: every position of a sample of calls (the full enumeration is C14's)
    import c14
    allc = c14.cases(chk, mdl)
    # calls whose paths have dot segments or empty segments reach the allocation sites of dot removal, guard insertion and
    # trailing-segment replacement: always kept; a random sample of the others
    special = [c for c in allc if "2e.2e" in c or "2f.2f" in c]
    others = [c for c in allc if c not in set(special)]
    fcalls = (special if not q else special[:700]) + chk.rng.sample(others, min(len(others), 120 if q else 1500))
    ffree = lib.run_lines(mdl, [c + " 0 0" for c in fcalls])
    for c, o in zip(fcalls, ffree):
        n = int(o.split(" req=")[1].split()[0]) if " req=" in o else 0
        # one position beyond what the model's run makes: an implementation that makes an extra request is failed there too
        for k in range(1, n + 3): ops.append("%s %d %d" % (c, k, k % 2))
    # invalid arguments come back as parse-error on both sides
    corr = []
    for fl, cs in (("A", "1"), ("W", "4"), ("A_asan", "1"), ("W_asan", "4")):
        model = lib.run_lines(mdl, hreq + ops, env={"DRV_CSIZE": cs})
        impl = lib.run_lines(exes[fl], hreq + ops)
        chk.cov["evaluations"] += len(impl); chk.cov["traces_validated_against_impl"] += len(impl)
        for rq, o, m in zip(hreq + ops, impl, model):
            if o.startswith("!") or "!crash" in o:
                chk.violation("crash or sanitizer report: " + o[:200], {"request": rq, "build": fl, "impl": o}); continue
            if "parse-error" in o: continue
            if o != m: corr.append((rq, fl, o, m))
            live = o.split(" live=")[1].split()[0]; bad = o.split(" bad")[1].split("=")[1].split()[0]
            if live != "0": chk.violation("%s block(s) outstanding after every object was released" % live, {"request": rq, "build": fl, "impl": o})
            elif bad != "0": chk.violation("a block was released twice, or a pointer released that the manager did not hand out", {"request": rq, "build": fl, "impl": o})
            if fl == "A": nontrivial.add(rq)
    # (3) the query-list calls with the recording manager, against Model/QueryM.v: dissect + free list, compose + free of
    # the string, dissect -> compose -> free; a sample of failure positions (the full enumeration is C14's)
    qmdl = qmlib.build_model(); qcorr = []; by_op = {}
    qcalls = qmlib.calls(chk, many=False)
    nq = qmlib.explore(chk, exes, qmdl, qcalls, False, nontrivial, qcorr, by_op)
    nq += qmlib.explore(chk, exes, qmdl, chk.rng.sample(qcalls, min(len(qcalls), 60 if q else 600)), True, nontrivial, qcorr, by_op)
    if qcorr and not chk.violations:
        rq, fl, o, m = qcorr[0]
        chk.violation("correspondence broken: memory-tier model of the query functions and implementation disagree on lists, ledger or allocation trace (%d cases)" % len(qcorr),
                      {"correspondence": qmlib.CORR, "request": rq, "build": fl, "impl": o, "model": m}, found_input=False)
    if corr and not chk.violations:
        rq, fl, o, m = corr[0]
        chk.violation("correspondence broken: memory-tier model and implementation disagree on objects, ledger or allocation trace (%d cases)" % len(corr),
                      {"correspondence": "Model/Mem.v, ParseM.v, OpsM.v vs src", "request": rq, "build": fl, "impl": o, "model": m}, found_input=False)
    chk.cov["distinct_nontrivial"] = len(nontrivial)
    chk.cov["rule"] = ("(1) interposed C library allocator + pool-backed custom manager: battery of all nine manager-taking calls (parse, free members, resolve, create reference, normalize, make owner, dissect, compose, free query list) on generated URIs: C library silent, pool empty afterwards, exact pointers, five incomplete managers rejected with code 10 before any allocation, NULL manager uses the C library; "
                       "(2) random histories and single operations with the recording manager: ledger empty after release, frees idempotent, full allocation trace equal to the memory-tier model's; "
                       "(3) dissect query + free query list, compose query + free of the string, dissect -> compose -> free with the recording manager: trace of the call and of the release equal to the memory-tier model's (Model/QueryM.v), nothing outstanding after the matching release, no bad release, inputs unchanged")
    chk.cov["distribution"] = {"battery_requests": len(ireq), "histories": len(hreq), "single_operations": len(ops), "query_requests": nq, "query_by_operation(A)": by_op}
    chk.cov["samples"] = [{"request": ireq[0]}, {"request": ops[1]}]
    chk.assumptions = ["'nothing bypasses the manager' is observed (symbol interposition), not proved; the theorem is the ledger invariant of the memory-tier model"]
    return chk.finish(proofs)

def replay(path):
    r = json.load(open(path)); exes = lib.build_impl(); mdl = lib.build_model()
    rq = r.get("request")
    if not rq: print(json.dumps(r, indent=1)); return 0
    print("request:", rq)
    if rq.startswith("run "):
        ip = lib.build_impl(flavours=("A", "W"), driver="ipose.c", tag="ipose")
        for fl, exe in ip.items(): print("ipose %s:" % fl, lib.run_lines(exe, [rq])[0])
        return 0
    if qmlib.is_query(rq): mdl = qmlib.build_model()
    for fl, exe in exes.items():
        print("model %-7s:" % fl, lib.run_lines(mdl, [rq], env={"DRV_CSIZE": "4" if fl.startswith("W") else "1"})[0])
        print("impl  %-7s:" % fl, lib.run_lines(exe, [rq])[0])
    return 0
