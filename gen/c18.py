"""C18 — filename / URI-string conversions round-trip within the documented buffer sizes."""
import itertools, json, os
import lib, qflib
from lib import enc, dec, show

PID = "C18"
# a C : \ / % ' ' . # 0x80
ALPHA = [0x61, 0x43, 0x3a, 0x5c, 0x2f, 0x25, 0x20, 0x2e, 0x23, 0x80]
FILE = [0x66, 0x69, 0x6c, 0x65, 0x3a]
builds = qflib.builds

def S(s): return [ord(c) for c in s]

def gen_names(chk):
    """-> list of (unix?, name)"""
    rng = chk.rng; quick = chk.tier == "quick"
    maxlen = 4 if quick else 5
    names = []
    for n in range(0, maxlen + 1):
        for t in itertools.product(ALPHA, repeat=n):
            names.append((1, list(t))); names.append((0, list(t)))
    # one more character behind the prefixes that decide the class
    for pre in (S("C:\\"), S("\\\\a"), S("\\\\a\\"), S("/"), S("C:"), S("a:"), S("\\\\")):
        for n in range(maxlen - 1, maxlen + 1):
            for t in itertools.product(ALPHA, repeat=n):
                if (len(names) + n) % (1 if not quick else 3) == 0:
                    names.append((0 if pre[0] != 0x2f else 1, pre + list(t)))
    # names that look like the beginning of a URI (the reverse direction recognises prefixes of "file:///")
    for w in ("file", "fil", "file:", "filename.txt", "files\\x", "file server\\share", "file\\x", "file:x", "file:/x", "file:\\x", "http:x", "File", "fi", "f"):
        names.append((0, S(w))); names.append((1, S(w.replace("\\", "/"))))
    # every code point 1..255 at each of the first four positions (a conversion must not single out a character at an index:
    # '|' behind a drive letter, ':' at index 1, ...), bare and behind the class-deciding prefixes
    for b in range(1, 256):
        for pos in range(0, 4):
            for tail in ([], [0x62]):
                core = [0x61] * pos + [b] + tail
                names.append((0, core)); names.append((1, core))
                if pos <= 1 or not quick:
                    for pre in (S("C:\\"), S("\\\\srv\\"), S("d\\")): names.append((0, pre + core))
                    names.append((1, [0x2f] + core)); names.append((1, S("d/") + core))
    # names that mean something elsewhere (RFC 8089 host "localhost", loop-back addresses, dot segments, drive-like and scheme-like
    # words) in every position where a conversion could be tempted to treat them specially: UNC server, first / later segment
    WORDS = ["localhost", "LOCALHOST", "Localhost", "localhost2", "127.0.0.1", "::1", "[::1]", ".", "..", "...", "c:", "C|", "c$", "file:", "file", "http:", "~", "%2F", "%5C", "%00", "con", "nul", "share", "a b"]
    for w in WORDS:
        for nm in ("\\\\" + w, "\\\\" + w + "\\", "\\\\" + w + "\\share\\x", "\\\\srv\\" + w + "\\x", w, w + "\\x", "x\\" + w, "C:\\" + w, "C:\\" + w + "\\x", "C:\\x\\" + w):
            names.append((0, S(nm)))
        for nm in ("/" + w, "/" + w + "/x", w, w + "/x", "x/" + w, "//" + w + "/x"):
            names.append((1, S(nm)))
    def seg(L): return [rng.choice(ALPHA[:2] + ALPHA[5:] + [rng.randint(1, 255)]) for _ in range(L)]
    def clean(x, bad): return [c for c in x if c not in bad]
    for _ in range(1500 if quick else 60000):
        k = rng.choice([1, 2, 5, 12]); L = rng.choice([0, 1, 3, 9, 40])
        segs = [clean(seg(rng.choice([0, 1, L])), (0x2f, 0x5c)) for _ in range(k)]
        ujoin = [c for i, s in enumerate(segs) for c in ([0x2f] if i else []) + s]
        wjoin = [c for i, s in enumerate(segs) for c in ([0x5c] if i else []) + s]
        names.append((1, ([0x2f] if rng.random() < 0.5 else []) + ujoin + [c for c in seg(2) if c != 0x5c or True]))
        kind = rng.choice("drive unc rel any".split())
        if kind == "drive": names.append((0, [rng.choice(S("CzAq")), 0x3a] + ([0x5c] + wjoin if rng.random() < 0.8 else [])))
        elif kind == "unc": names.append((0, [0x5c, 0x5c] + (segs[0] or [0x73]) + [0x5c] + wjoin))
        elif kind == "rel": names.append((0, wjoin))
        else: names.append((0, seg(L) + wjoin))
    return names

def gen_uris(chk):
    """-> list of (unix?, uri string) : the recognised prefixes and near misses, any tail"""
    rng = chk.rng; quick = chk.tier == "quick"
    pres = [[], FILE, FILE + [0x2f], FILE + [0x2f] * 2, FILE + [0x2f] * 3, FILE + [0x2f] * 4, S("fil"), S("File:"), S("file"), S("file:\\"), S("file:%2f")]
    TA = [0x61, 0x2f, 0x63, 0x3a, 0x25, 0x34, 0x31, 0x5c, 0x32, 0x46]
    out = []
    for pre in pres:
        for n in range(0, (3 if quick else 4) + 1):
            for t in itertools.product(TA, repeat=n):
                out.append((1, pre + list(t))); out.append((0, pre + list(t)))
    # every percent-encoded value (both hex cases) and every raw code point at each of the first three positions behind each prefix
    HEXU = b"0123456789ABCDEF"; HEXL = b"0123456789abcdef"
    for pre in pres[:6]:
        for v in range(0, 256):
            for pos in range(0, 3):
                for hx in (HEXU, HEXL):
                    out.append((pos % 2, pre + [0x61] * pos + [0x25, hx[v >> 4], hx[v & 15]] + [0x62]))
                    out.append(((pos + 1) % 2, pre + [0x61] * pos + [0x25, hx[v >> 4], hx[v & 15]]))
                if v: out.append((0, pre + [0x61] * pos + [v, 0x62])); out.append((1, pre + [0x61] * pos + [v, 0x62]))
    for w in ("localhost", "LOCALHOST", "localhost.", "127.0.0.1", "[::1]", ".", "..", "", "c:", "C|", "srv"):
        for rest in ("", "/", "/x", "/c:/x", "/C|/x", "/share/x", "//x", "/%2Fx"):
            for pre in ("file://", "file:", "file:/", "FILE://", "//"):
                out.append((0, S(pre + w + rest))); out.append((1, S(pre + w + rest)))
    for _ in range(1000 if quick else 50000):
        L = rng.choice([4, 9, 30, 120])
        t = []
        while len(t) < L:
            r = rng.random()
            if r < 0.3: t += [0x25, rng.choice(b"0123456789abcdefABCDEF"), rng.choice(b"0123456789abcdefABCDEFg%")]
            else: t.append(rng.choice(TA + [rng.randint(1, 255)]))
        out.append((rng.randint(0, 1), rng.choice(pres) + t))
    return out

def doc_absolute(unx, s):
    """Does the function treat the URI string as absolute (strip a prefix)?  Used only to size the
    filename buffer the way the documentation allows: len + 1 - 5 for these, len + 1 otherwise."""
    def sw(p): return s[:len(p)] == p
    if unx: return sw(FILE + [0x2f])
    return sw(FILE + [0x2f, 0x2f]) or (sw(FILE) and not sw(FILE + [0x2f]))

def run(chk):
    proofs = lib.check_proofs(PID)
    exes, mdl = builds()
    quick = chk.tier == "quick"
    names = gen_names(chk)
    p1 = ["fn2uri %d %s" % (u, enc(f)) for (u, f) in names]
    cls = [tuple(c.split()) for c in lib.run_lines(mdl, ["spec_class %s" % enc(f) for (_, f) in names])]
    size = lib.run_lines(mdl, ["spec_urisize %d %s" % (u, enc(f)) for (u, f) in names])
    def in_class(u, c): return True if u else (c[1] == "1" or c[2] == "1" or c[3] == "1")
    def absolute(u, c): return (c[0] == "1") if u else (c[1] == "1" or c[2] == "1")
    model1 = lib.run_lines(mdl, p1)
    impl1 = {fl: qflib.run_lines(exe, p1) for fl, exe in exes.items()}
    chk.cov["evaluations"] += 4 * len(p1); chk.cov["traces_validated_against_impl"] += 4 * len(p1)
    uris = gen_uris(chk)
    p3 = ["uri2fn %d %d %s" % (u, 1 if doc_absolute(u, s) else 0, enc(s)) for (u, s) in uris]
    model3 = lib.run_lines(mdl, p3)
    ext3 = lib.run_lines(mdl, ["extent_u2f %d %s" % (u, enc(s)) for (u, s) in uris])
    impl3 = {fl: qflib.run_lines(exe, p3) for fl, exe in exes.items()}
    chk.cov["evaluations"] += 4 * len(p3); chk.cov["traces_validated_against_impl"] += 4 * len(p3)
    def V(what, rq, o, name, **kw):
        d = {"request": rq, "impl": o, "build": name}; d.update(kw); chk.violation(what, d)
    dist = {"unix": 0, "win_drive": 0, "win_unc": 0, "win_relative": 0, "win_outside_classes": 0, "uri_strings": len(uris)}
    for (u, f), c in zip(names, cls):
        if u: dist["unix"] += 1
        elif c[1] == "1": dist["win_drive"] += 1
        elif c[2] == "1": dist["win_unc"] += 1
        elif c[3] == "1": dist["win_relative"] += 1
        else: dist["win_outside_classes"] += 1
    p2all = {}
    for name in ("A", "W"):
        out = impl1[name]
        p2 = []; meta = []; shape_q = []; parse_q = []; form_q = []
        for rq, o, (u, f), c, sz in zip(p1, out, names, cls, size):
            of = o.split()
            if len(of) != 4 or of[1] != "0" or "!" in o: V("filename -> URI string: failure or no terminator within the documented size", rq, o, name); continue
            if of[3] != "1": V("filename -> URI string stored beyond the documented size", rq, o, name); continue
            s = dec(of[2]) or []
            if not in_class(u, c): continue
            if len(s) + 1 > int(sz): V("URI string longer than documented for the class of the name", rq, o, name, documented=int(sz))
            shape_q.append((rq, o, of[2])); parse_q.append("parseok %s" % of[2]); form_q.append("spec_form %d %s %s" % (u, enc(f), of[2]))
            p2.append("uri2fn %d %d %s" % (u, 1 if absolute(u, c) else 0, of[2])); meta.append((rq, o, f))
        for (rq, o, t), r in zip(shape_q, lib.run_lines(mdl, ["spec_uriref %s" % t for (_, _, t) in shape_q])):
            if r != "1": V("the URI string produced is not a URI reference of the expected shape", rq, o, name)
        for (rq, o, t), r in zip(shape_q, lib.run_lines(mdl, form_q)):
            if r != "1": V("the URI string does not have the documented form (file:///x, file:///C:/x, file://server/share, relative)", rq, o, name)
        for (rq, o, t), r in zip(shape_q, qflib.run_lines(exes[name], parse_q)):
            if r != "parseok 0": V("uriparser's own parser rejects the URI string produced", rq, o, name, parse=r)
        back = qflib.run_lines(exes[name], p2); chk.cov["evaluations"] += len(p2) + len(parse_q)
        backx = qflib.run_lines(exes[name + "_asan"], p2); chk.cov["evaluations"] += len(p2)
        p2all[name] = p2
        for rq2, b, bx, (rq, o, f) in zip(p2, back, backx, meta):
            bf = b.split()
            if b != bx or len(bf) != 4 or bf[1] != "0" or bf[3] != "1" or "!" in b:
                V("URI string -> filename: failure, or stored beyond the documented size", rq2, b, name, asan=bx, filename_request=rq); continue
            if (dec(bf[2]) or []) != f:
                V("filename -> URI string -> filename does not return the filename", rq, o, name, back=b)
        # any URI string: stays within the buffer, short forms
        o3 = impl3[name]
        for rq, o in zip(p3, o3):
            of = o.split()
            if len(of) != 4 or of[1] != "0" or of[3] != "1" or "!" in o:
                V("URI string -> filename: failure, no terminator, or stored beyond the buffer", rq, o, name)
        res = {(u, tuple(s)): o for (u, s), o in zip(uris, o3)}
        for (u, s), o in zip(uris, o3):
            short = FILE + [0x2f] if u else FILE
            if s[:len(short)] == short and s[len(short):len(short) + 1] != [0x2f]:
                lng = (u, tuple(FILE + [0x2f] * 3 + s[len(short):]))
                if lng in res and res[lng].split()[:3] != o.split()[:3]:
                    V("short form not read like the file:/// form", "uri2fn %d . %s" % (u, enc(s)), o, name, long_form=res[lng])
    # model extents vs the sizes the harness used
    for (u, s), rq, e in zip(uris, p3, ext3):
        cap = len(s) + 1 - 5 if rq.split()[2] == "1" else len(s) + 1
        if int(e) > cap:
            chk.violation("model: more characters stored than the buffer the documentation asks for", {"request": rq, "model_extent": int(e), "buffer": cap}, found_input=False)
    # ---- correspondence
    nm = 0; ncr = 0
    for reqs, model, impl in ((p1, model1, impl1), (p3, model3, impl3)):
        for fl in exes:
            for rq, a, m in zip(reqs, impl[fl], model):
                if a.startswith("!not-run"): continue
                if a.startswith("!crash"):
                    ncr += 1
                    if ncr <= 5: chk.violation("the implementation crashed or a sanitizer stopped it (%s build)" % fl, {"request": rq, "impl": a, "build": fl, "model": m})
                    continue
                if a != m:
                    nm += 1
                    if nm <= 30:
                        chk.violation("correspondence broken: model and implementation disagree on %s" % rq.split()[0],
                                      {"correspondence": "Model/File.v vs src/UriFile.c", "request": rq, "model": m, "impl": a, "build": fl}, found_input=False)
    nontriv = set()
    for rq, m in zip(p1 + p3, model1 + model3):
        f = rq.split(); t = f[-1]
        if m.split()[2] != t: nontriv.add(rq)
    chk.cov["distinct_nontrivial"] = len(nontriv)
    chk.cov["rule"] = ("every name of length <= %d over {a C : \\ / %% ' ' . # 0x80} as Unix and as Windows name, longer names behind the class-deciding "
                       "prefixes, random long names per class; every URI string made of a recognised or nearly recognised prefix and a tail of "
                       "length <= %d over {a / c : %% 4 1 \\ 2 F}; non-trivial = output differs from input; distinct by request line; 4 builds each; "
                       "round trip, shape, parser acceptance and sizes are checked for names inside the classes of Spec/FileSpec.v" % (4 if quick else 5, 3 if quick else 4))
    chk.cov["distribution"] = dist
    k = len(p1)
    chk.cov["samples"] = [{"request": r, "input": show(r.split()[-1]), "model": m} for r, m in
                          ((p1[7], model1[7]), (p1[k // 2], model1[k // 2]), (p1[-1], model1[-1]), (p3[len(p3) // 3], model3[len(p3) // 3]), (p3[-1], model3[-1]))]
    chk.cov["exhaustive"] = False
    chk.assumptions = ["filenames over code points 1..255",
                       "filename buffers for arbitrary URI strings are sized len+1-5 exactly when the function strips a prefix (file:/ on Unix; file:// or "
                       "file:<no slash> on Windows), len+1 otherwise: 'file:x' (Unix) and 'file:/x' (Windows) are copied unchanged and need len+1"]
    return chk.finish(proofs)

def replay(path):
    r = json.load(open(path))
    exes, mdl = builds()
    rq = r.get("request")
    if not rq or rq.split()[0] not in ("fn2uri", "uri2fn"):
        print(json.dumps(r, indent=1)); return 0
    print("request:", rq)
    print("model  :", lib.run_lines(mdl, [rq])[0])
    for fl, exe in exes.items():
        print("impl %-7s:" % fl, lib.run_lines(exe, [rq])[0])
    return 0
