"""C03 — parsing stays inside the given range and leaves no residue on failure."""
import json
import lib, parsesuite, c01
from lib import enc, dec, show

PID = "C03"

def run(chk):
    proofs = lib.check_proofs(PID)
    exes = lib.build_impl(); mdl = lib.build_model()
    q = chk.tier == "quick"
    nstates, suite = parsesuite.automaton_suite(mdl, 0)
    rnd = parsesuite.random_uris(chk.rng, 1500 if q else 30000)
    strs = sorted(set(suite + rnd + parsesuite.repo_corpus()))
    if q: strs = sorted(set(chk.rng.sample(strs, min(len(strs), 12000)) + parsesuite.ip4_suite()))   # the dotted-host suite is always kept whole
    reqs = []; base = []
    # (a) page-end placement (plain builds: a read past the range or a write to the input faults)
    for f in strs:
        reqs.append("parseplace %s 1" % f); base.append(f)
    # (b) middle of a buffer, every possible next character (and a few longer continuations)
    sub = strs[::7 if q else 2]
    trails = [enc([c]) for c in range(0, 256, 5 if q else 1)] + [enc([0x25, 0x34, 0x31]), enc([0x3a, 0x3a, 0x5d]), enc([0x2e, 0x31, 0x2e, 0x31]), enc([0x40, 0x5b])]
    for k, f in enumerate(sub):
        for t in (trails if k % (40 if q else 10) == 0 else [trails[(k * 7) % len(trails)], trails[(k * 13 + 5) % len(trails)], trails[-1 - (k % 4)]]):
            reqs.append("parseplace %s 0 %s" % (f, t)); base.append(f)
    # (c) every split point of longer texts: the prefix is the range, the rest follows it in memory
    longs = [f for f in strs if len(dec(f) or []) >= 12][: (150 if q else 3000)]
    for f in longs:
        d = dec(f)
        for k in range(len(d) + 1):
            reqs.append("parseplace %s 0 %s" % (enc(d[:k]), enc(d[k:]))); base.append(enc(d[:k]))
    mreq = sorted(set(base))
    mres = dict(zip(mreq, lib.run_lines(mdl, ["parse %s 5" % f for f in mreq])))
    nontrivial = set(); corr = 0; fails = 0
    for fl in ("A", "W", "A_asan", "W_asan"):
        sel = [i for i in range(len(reqs)) if not (fl.endswith("asan") and reqs[i].split()[2] == "1" and i % 3)]
        impl = lib.run_lines(exes[fl], [reqs[i] for i in sel])
        chk.cov["evaluations"] += len(sel); chk.cov["traces_validated_against_impl"] += len(sel)
        for i, o in zip(sel, impl):
            want = mres[base[i]]
            if o.startswith("!crash") or o.startswith("!"):
                chk.violation("the parser touched memory outside [first, afterLast) or wrote to the input (fault / sanitizer report): " + o[:200],
                              {"request": reqs[i], "input": show(reqs[i].split()[1]), "build": fl, "impl": o}); continue
            if " live=0 badfree=0" not in o:
                chk.violation("blocks outstanding or bad free after a parse (and two calls of the free function)", {"request": reqs[i], "build": fl, "impl": o}); continue
            if o != want:
                # the outcome depends on what follows the range, or differs from the model
                plain = lib.run_lines(exes[fl], ["parse %s 5" % base[i]])[0]
                if plain != o:
                    chk.violation("the outcome depends on what follows the range: %s vs %s" % (o[:60], plain[:60]),
                                  {"request": reqs[i], "input": show(reqs[i].split()[1]), "trailing": show(reqs[i].split()[3]) if len(reqs[i].split()) > 3 else None, "build": fl, "impl": o, "alone": plain})
                else: corr += 1
            if fl == "A": nontrivial.add(reqs[i])
            if " E " in o or o.split()[1] != "0": fails += (fl == "A")
    # (d) "on a syntax failure nothing remains allocated" -- before the caller frees anything: the state-based entry points
    #     (heap-owning members of the output structure) and the manager-taking one (the manager's books), on every rejected text
    rejected = [f for f in mreq if mres[f].split()[1] != "0"]
    if q: rejected = rejected[:: max(1, len(rejected) // 6000)]
    rreq = ["parse %s %d" % (f, e) for f in rejected for e in (0, 1, 5)]
    for fl in ("A", "W", "A_asan"):
        rimpl = lib.run_lines(exes[fl], rreq)
        chk.cov["evaluations"] += len(rreq); chk.cov["traces_validated_against_impl"] += len(rreq)
        for rq, o in zip(rreq, rimpl):
            if o.startswith("!"):
                chk.violation("crash / sanitizer report on a rejected text: " + o[:200], {"request": rq, "input": show(rq.split()[1]), "build": fl, "impl": o})
            elif "!resid" in o:
                chk.violation("after a failed parse %s block(s) are still allocated (before the caller's clean-up)" % o.split("!resid=")[1].split()[0],
                              {"request": rq, "input": show(rq.split()[1]), "entry_point": rq.split()[2], "build": fl, "impl": o})
    if corr and not chk.violations:
        chk.violation("correspondence broken: Model/Parse.v and the implementation disagree (%d cases)" % corr,
                      {"correspondence": "Model/Parse.v vs src/UriParse.c (see C01/C02 for the first disagreeing input)"}, found_input=False)
    chk.cov["distinct_nontrivial"] = len(nontrivial)
    chk.cov["states"] = nstates
    chk.cov["rule"] = ("every string of the automaton conformance suite (one per state x atom, with completions), random and corpus texts: (a) placed so that it ends at the end of a readable page followed by an unreadable one, the text page read-only; "
                       "(b) in the middle of a buffer followed by each possible next character; (c) every split point of the longer texts with the remainder following in memory; results must equal the parse of the range alone; "
                       "after every call the output is freed twice and the recording manager must be empty")
    chk.cov["distribution"] = {"strings": len(strs), "requests": len(reqs), "failing_parses(A)": fails, "split_texts": len(longs)}
    chk.cov["samples"] = [{"request": reqs[i]} for i in (0, len(strs) + 3, len(reqs) - 5)]
    chk.assumptions = ["an out-of-range read is runtime behaviour: observed with page protection, ASan exact-size blocks and trailing-content sweeps; the model's parser has no access to anything but the range by construction"]
    return chk.finish(proofs)

def replay(path):
    r = json.load(open(path)); exes = lib.build_impl(); mdl = lib.build_model()
    rq = r.get("request")
    if not rq: print(json.dumps(r, indent=1)); return 0
    print("request:", rq)
    for fl, exe in exes.items(): print("impl %-7s:" % fl, lib.run_lines(exe, [rq])[0])
    return 0
