#!/usr/bin/env python3
"""setup helper: build every OCaml model driver used by the checks"""
import lib
print(lib.build_model())
print(lib.build_model(extract="c15model", driver="driver_c15.ml"))
print(lib.build_model(extract="qfmodel", driver="driver_qf.ml"))
print(lib.build_model(extract="qmmodel", driver="driver_qm.ml"))
