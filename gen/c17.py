"""C17 — query lists round-trip and composed output fits the stated size."""
import glob, itertools, json, os
import lib, qflib
from lib import enc, dec, show

PID = "C17"
INT_MAX = 2147483647
# key / value alphabet of DESIGN.md: "", a, &, =, +, ' ', %, \n, \r\n, 0x80 ; value additionally NULL
KEYS = [[], [0x61], [0x26], [0x3d], [0x2b], [0x20], [0x25], [0x0a], [0x0d, 0x0a], [0x80]]
VALS = KEYS + [None]
ITEMS = [(k, v) for k in KEYS for v in VALS]
# splitter alphabet: & = a + % 0 D A
SPLIT_ALPHA = [0x26, 0x3d, 0x61, 0x2b, 0x25, 0x30, 0x44, 0x41]

def items_fields(l):
    return "%d%s" % (len(l), "".join(" %s %s" % (enc(k), enc(v)) for k, v in l))

builds = qflib.builds

# ---------------------------------------------------------------------------------- case generation
def gen_lists(chk):
    """-> list of (items, all_caps) ; all_caps: sweep every capacity (else only the critical ones)"""
    rng = chk.rng; quick = chk.tier == "quick"
    out = []
    for it in ITEMS: out.append(([it], True))
    for a in ITEMS:
        for b in ITEMS: out.append(([a, b], True))
    # three items: exhaustive over a reduced alphabet, random over the full one
    K3 = [[], [0x61], [0x26], [0x0d, 0x0a], [0x20]]; V3 = [None, [], [0x3d], [0x0a]]
    I3 = [(k, v) for k in K3 for v in V3]
    if not quick: I3 = ITEMS[::3] + [([], None), ([], [])]
    for t in itertools.product(I3, repeat=3): out.append((list(t), False))
    for _ in range(3000 if quick else 150000):
        out.append(([rng.choice(ITEMS) for _ in range(3)], rng.random() < 0.1))
    # longer lists and longer strings
    for _ in range(300 if quick else 20000):
        n = rng.choice([4, 5, 8, 20])
        l = []
        for _ in range(n):
            k = [rng.choice([0x61, 0x20, 0x26, 0x3d, 0x2b, 0x25, 0x0a, 0x0d, rng.randint(1, 255)]) for _ in range(rng.choice([0, 1, 3, 10]))]
            v = None if rng.random() < 0.3 else [rng.choice([0x61, 0x20, 0x26, 0x3d, 0x2b, 0x25, 0x0a, 0x0d, rng.randint(1, 255)]) for _ in range(rng.choice([0, 1, 3, 10]))]
            k = [c for c in k if c != 0x5a]; v = None if v is None else [c for c in v if c != 0x5a]
            l.append((k, v))
        out.append((l, False))
    return out

def gen_dissect(chk):
    rng = chk.rng; quick = chk.tier == "quick"
    reqs = []
    combos = [(p, b) for p in (0, 1) for b in (0, 1, 2, 3)]
    full = 4 if quick else 5
    top = 5 if quick else 6
    k = 0
    for n in range(0, top + 1):
        for t in itertools.product(SPLIT_ALPHA, repeat=n):
            k += 1
            cs = combos if n <= full else [combos[k % 8]]
            for (p, b) in cs:
                reqs.append("dissect 1 %d %d %d %s" % (p, b, k % 4, enc(list(t))))
            if n <= 3: reqs.append("dissect 0 0 0 %d %s" % (k % 4, enc(list(t))))
    # token level: every sequence of <= 3 (quick) / 4 tokens over encoded breaks, '+', a letter, the separators and a malformed '%',
    # all eight option combinations (the state carried from one token to the next must be reset by every kind of token)
    TOK = [[0x25, 0x30, 0x44], [0x25, 0x30, 0x41], [0x2b], [0x61], [0x3d], [0x26], [0x25, 0x32, 0x30], [0x25], [0x25, 0x34], [0x0d], [0x0a]]
    for n in range(1, (3 if quick else 4) + 1):
        for ts in itertools.product(TOK, repeat=n):
            k += 1
            t = [c for tk in ts for c in tk]
            cs = combos if n <= 2 else [combos[k % 8], combos[(k // 8 + 3) % 8], (1, 1 + k % 3)]
            for (p, b) in cs:
                reqs.append("dissect 1 %d %d %d %s" % (p, b, k % 4, enc(t)))
    for _ in range(2000 if quick else 100000):
        L = rng.choice([6, 8, 12, 30, 100])
        t = [rng.choice(SPLIT_ALPHA + [0x26, 0x3d, 0x0d, 0x0a, 0x20, rng.randint(1, 255)]) for _ in range(L)]
        reqs.append("dissect 1 %d %d %d %s" % (rng.randint(0, 1), rng.randint(0, 3), rng.randint(0, 3), enc(t)))
    return reqs

# ---------------------------------------------------------------------------------- sizes near INT_MAX
# A "big" case is (stp, nb, groups), groups = [(N, klen, vlen | -1), ...]: N list nodes that all point to one
# klen-character key and one vlen-character value ('a' repeated; -1 = NULL value), group after group.
def big_fields(c):
    stp, nb, groups = c
    return "%d %d %s" % (stp, nb, " ".join("%d %d %d" % g for g in groups))

def parse_big(rq):
    f = rq.split()
    if f[0] != "bigreq" or len(f) < 6 or (len(f) - 3) % 3: raise ValueError("corpus/C17: not a bigreq request: %r" % rq)
    v = [int(x) for x in f[1:]]
    return (v[0], v[1], [tuple(v[i:i + 3]) for i in range(2, len(v), 3)])

def big_oracle(c):
    """Computed here, independently of the model: (every item is below the per-item limit, worst-case total
    in unbounded integers, length of the composed text ('a' is never escaped))."""
    stp, nb, groups = c
    wc = 6 if nb else 3; lim = INT_MAX // wc
    groups = [g for g in groups if g[0] > 0]
    n = sum(N for N, kl, vl in groups)
    items_ok = all(kl < lim and vl < lim for N, kl, vl in groups)
    total = sum(N * (wc * kl + (0 if vl < 0 else 1 + wc * vl)) for N, kl, vl in groups) + n - 1
    textlen = sum(N * (kl + (0 if vl < 0 else 1 + vl)) for N, kl, vl in groups) + n - 1
    return items_ok, total, textlen

def corpus_cases(tier):
    """former witnesses, corpus/C17/*.json: {"cases": [{"request": "bigreq ...", "tier": "quick"|"thorough", ...}]}"""
    out = []
    for f in sorted(glob.glob(os.path.join(lib.VERIF, "corpus", PID, "*.json"))):
        for c in json.load(open(f))["cases"]:
            if c.get("tier", "quick") == "quick" or tier != "quick": out.append(parse_big(c["request"]))
    return out

def gen_big(chk):
    rng = chk.rng; quick = chk.tier == "quick"
    out = [(0, 0, [(2, 1000, 1000)]), (0, 1, [(2731, 65536, 65536)]), (0, 0, [(32768, 65535, -1)]), (1, 1, [(5461, 65536, -1)]),
           # the total is exactly INT_MAX (accepted; the allocating variant gives the malloc code)
           (0, 0, [(32768, 21845, -1)]), (1, 0, [(16384, 21845, 21845)]), (0, 1, [(16384, 10922, 10923)]),
           # INT_MAX - 1, INT_MAX + 1, INT_MAX - 2, + 2, + 3
           (0, 0, [(32766, 21845, -1), (1, 43690, -1)]), (0, 0, [(32768, 21845, -1), (1, 0, -1)]),
           (0, 0, [(20853, 34327, -1)]), (0, 0, [(12505, 57243, -1)]), (0, 0, [(20261, 35330, -1)]),
           # the total passes INT_MAX in the middle of the list, small items follow
           (0, 0, [(32769, 21845, -1), (5, 3, 3)]), (1, 1, [(5, 3, 3), (16385, 21845, 21845), (2, 0, -1)])]
    for _ in range(16 if quick else 400):
        nb = rng.randint(0, 1); wc = 6 if nb else 3
        kl = rng.choice([rng.randint(4000, 70000), 65536, 21845])
        vl = rng.choice([-1, -1, 0, rng.randint(0, 70000), kl])
        per = wc * kl + (0 if vl < 0 else 1 + wc * vl) + 1
        N = max(1, min(200000, (INT_MAX + 1) // per + rng.choice([-2, -1, 0, 0, 0, 1, 2, 50])))
        groups = [(N, kl, vl)]
        rem = INT_MAX - big_oracle((0, nb, groups))[1]
        if rem > 1 and rng.random() < 0.8:
            # one more item that brings the total to within a few characters of INT_MAX, on either side
            groups.append((1, max(0, (rem - 1) // wc + rng.choice([-1, 0, 0, 1])), -1))
            if rng.random() < 0.3: groups.append((rng.randint(1, 3), rng.randint(0, 2), rng.choice([-1, 0, 1])))
        if rng.random() < 0.2: groups.insert(0, (rng.randint(1, 4), rng.randint(0, 9), rng.choice([-1, 0, 5])))
        out.append((rng.randint(0, 1), nb, groups))
    if not quick:
        # the per-item limits, a single item whose key and value parts together pass INT_MAX, two- and three-item
        # totals just above INT_MAX (one 239 .. 716 MB string shared by key and value; x4 as wchar_t)
        out += [(0, 0, [(1, 715827882, -1)]), (0, 1, [(1, 357913941, -1)]), (0, 0, [(1, 715827881, -1)]),
                (0, 0, [(2, 357913940, 357913940)]), (0, 0, [(3, 715827881, -1)]), (0, 0, [(3, 238609294, -1)]),
                (0, 1, [(1, 357913940, 357913940)]), (0, 0, [(2, 1000, 1000), (1, 715827882, -1)])]
    return out

def mem_available():
    try:
        for ln in open("/proc/meminfo"):
            if ln.startswith("MemAvailable"): return int(ln.split()[1]) * 1024
    except OSError: pass
    return 0

def check_sizes(chk, exes, mdl):
    """chars-required and compose-malloc on lists whose worst-case size is near or above INT_MAX: the former
    witnesses of corpus/C17 first, then fixed boundary cases and random ones; all four builds."""
    cases = []
    for c in corpus_cases(chk.tier) + gen_big(chk):
        if c not in cases: cases.append(c)
    def V(what, rq, o, name, **kw):
        d = {"request": rq, "impl": o, "build": name}; d.update(kw); chk.violation(what, d)
    def judge(c, name, o, om, m, spec):
        items_ok, total, textlen = big_oracle(c)
        rq = "bigreq " + big_fields(c)
        fits = items_ok and total <= INT_MAX
        of = o.split()
        if of[1] == "nomem": lib.log("C17: %s: not enough memory on the %s build, skipped" % (rq, name)); return
        if spec != "%d %d" % (items_ok, total):
            chk.violation("the size vocabulary of the C17 theorems (no_item_too_large, total_size) differs from the independent computation",
                          {"correspondence": "Proofs/QueryProofs.v total_size / no_item_too_large vs gen/c17.py big_oracle", "request": rq, "spec": spec,
                           "oracle": "%d %d" % (items_ok, total)}, found_input=False)
        # oracles on the implementation's own answer
        bad = False
        if len(of) != 3 or of[1] not in ("0", "4") or (of[1] == "0") != (of[2] != "-"):
            V("chars-required: malformed result or unexpected return code", rq, o, name); bad = True
        elif of[1] == "0" and not fits:
            V("chars-required reports success with a wrapped count: the true size exceeds INT_MAX%s" % ("" if items_ok else " (and an item is beyond the per-item limit)"),
              rq, o, name, charsRequired=int(of[2]), true_size=total, text_length=textlen); bad = True
        elif of[1] == "0" and int(of[2]) < textlen:
            V("chars-required is smaller than the text it is meant to hold", rq, o, name, charsRequired=int(of[2]), text_length=textlen); bad = True
        if om is not None:
            if om.split()[1] == "nomem": pass
            elif om == "bigmalloc 0" and not fits:
                V("compose-malloc succeeded for a list whose size exceeds INT_MAX", "bigmalloc " + big_fields(c), om, name, true_size=total); bad = True
            elif om not in ("bigmalloc 0", "bigmalloc 3", "bigmalloc 4"):
                V("compose-malloc: unexpected return code", "bigmalloc " + big_fields(c), om, name); bad = True
        # correspondence
        if not bad and m is not None and o != m:
            chk.violation("correspondence broken: model and implementation disagree on the size arithmetic",
                          {"correspondence": "Model/Query.v required_loop vs src/UriQuery.c uriComposeQueryEngine", "request": rq, "model": m, "impl": o, "build": name},
                          found_input=False)
        if not bad and om is not None and om.split()[1] != "nomem":
            want = "bigmalloc %d" % (4 if not fits else 3 if total == INT_MAX else 0)     # statement of C17_malloc_no_wrap
            if om != want:
                chk.violation("correspondence broken: compose-malloc does not follow C17_malloc_no_wrap",
                              {"correspondence": "Model/Query.v compose_malloc vs src/UriQuery.c uriComposeQueryMallocExMm", "request": "bigmalloc " + big_fields(c),
                               "expected": want, "impl": om, "build": name}, found_input=False)
    def wants_malloc(c):
        items_ok, total, textlen = big_oracle(c)
        # a list that fits is composed into total + 1 characters: only when that stays small (or is refused up front)
        return not (items_ok and total < INT_MAX) or total < (1 << 24)
    small = [c for c in cases if max(max(kl, vl) for N, kl, vl in c[2]) <= 10**6]
    giant = [c for c in cases if c not in small]
    rqs = ["bigreq " + big_fields(c) for c in small]
    mrq = ["bigmalloc " + big_fields(c) for c in small if wants_malloc(c)]
    par = max(1, min(lib.NCPU, len(rqs)))      # the extracted model does its int arithmetic on binary numbers: one list per process
    model = lib.run_lines(mdl, rqs, chunks=par)
    spec = lib.run_lines(mdl, ["spec_total %d %s" % (c[1], " ".join("%d %d %d" % g for g in c[2])) for c in small], chunks=par)
    for name, exe in exes.items():
        out = qflib.run_lines(exe, rqs + mrq, chunks=par)
        chk.cov["evaluations"] += len(out); chk.cov["traces_validated_against_impl"] += len(rqs)
        om = dict(zip(mrq, out[len(rqs):]))
        for c, rq, o, m, sp in zip(small, rqs, out, model, spec):
            if o.startswith("!"):
                V("the implementation crashed or a sanitizer stopped it", rq, o, name); continue
            x = om.get("bigmalloc " + big_fields(c))
            if x is not None and x.startswith("!"):
                V("the implementation crashed or a sanitizer stopped it", "bigmalloc " + big_fields(c), x, name); x = None
            judge(c, name, o, x, m, sp)
    for c in giant:
        rq = "bigreq " + big_fields(c)
        m = lib.run_lines(mdl, [rq])[0]
        sp = lib.run_lines(mdl, ["spec_total %d %s" % (c[1], " ".join("%d %d %d" % g for g in c[2]))])[0]
        for name, exe in exes.items():
            chars = sum(kl + 1 + (vl + 1 if vl not in (-1, kl) else 0) for N, kl, vl in c[2])
            need = int(chars * (1 if name.startswith("A") else 4) * (1.5 if "asan" in name else 1.25)) + (256 << 20)
            if mem_available() < need:
                lib.log("C17: %s skipped on the %s build: needs %d MB, %d MB available" % (rq, name, need >> 20, mem_available() >> 20)); continue
            o = qflib.run_lines(exe, [rq], chunks=1)[0]; chk.cov["evaluations"] += 1
            x = qflib.run_lines(exe, ["bigmalloc " + big_fields(c)], chunks=1)[0] if wants_malloc(c) else None
            if o.startswith("!") or (x or "").startswith("!"):
                V("the implementation crashed or a sanitizer stopped it", rq, o if o.startswith("!") else x, name); continue
            judge(c, name, o, x, m, sp)
    # ---- composing into a caller's buffer when a worst-case size is near INT_MAX: the capacity tests of the writing engine
    # (position + separator + worst case of the next key / value) must not wrap either.  The destination has exactly maxChars
    # characters and ends at an inaccessible page.  One 358 / 716 MB string per case (x4 as wchar_t).
    wr = [(0, 1, 64, [(1, 7, 357913940)]), (0, 0, 64, [(1, 4, 715827881)]), (0, 1, 64, [(1, 7, -1), (1, 357913940, -1)]),
          (1, 1, 9, [(1, 7, 357913940)]), (0, 1, 64, [(1, 357913940, -1)]), (0, 0, 1000, [(3, 100, 100), (1, 20, 715827881)])]
    if chk.tier == "quick": wr = wr[:3]
    for stp, nb, cap, groups in wr:
        c = (stp, nb, groups)
        items_ok, total, textlen = big_oracle(c)
        rq = "bigcompose %d %d %d %s" % (stp, nb, cap, " ".join("%d %d %d" % g for g in groups))
        for name, exe in exes.items():
            if chk.tier == "quick" and name != "A": continue
            chars = sum(kl + 1 + (vl + 1 if vl not in (-1, kl) else 0) for N, kl, vl in groups)
            need = int(chars * (1 if name.startswith("A") else 4) * (1.5 if "asan" in name else 1.25)) + (256 << 20)
            if mem_available() < need:
                lib.log("C17: %s skipped on the %s build: needs %d MB" % (rq, name, need >> 20)); continue
            o = qflib.run_lines(exe, [rq], chunks=1)[0]; chk.cov["evaluations"] += 1
            of = o.split()
            if of[:2] == ["bigcompose", "nomem"]: continue
            if o.startswith("!") or len(of) != 4:
                V("composing into a buffer of %d characters: crash (a store beyond maxChars reaches the inaccessible page behind the buffer) or a sanitizer stopped it" % cap, rq, o, name)
            elif of[3] != "1": V("composing stored in front of the destination buffer", rq, o, name)
            elif textlen + 1 > cap and of[1] != "4":
                V("composing a text of %d characters into %d reports return code %s instead of the too-large code" % (textlen, cap, of[1]), rq, o, name)
    return len(cases) + len(wr), len(giant) + len(wr)

def check_long(chk, exes):
    """lists of 255 .. 65 537 items and items of up to 65 537 characters (thresholds of narrow counters): composing gives the items joined
    by '&' / '=', dissecting that text gives the list back with the right count; judged on the implementation alone (all characters are
    'a'..'z', never escaped)"""
    quick = chk.tier == "quick"
    counts = (255, 256, 257, 32768, 65536, 65537) if quick else (255, 256, 257, 4096, 32767, 32768, 65535, 65536, 65537, 131073)
    cases = []
    for n in counts:
        cases.append(([("a", "b")] * n, "many two-character items"))
        cases.append(([("k" * n, "v" * n)], "one item with a long key and value"))
        cases.append(([("x", None)] * (n - 1) + [("y" * n, "")], "value-less items, a long last key with an empty value"))
    nreq = 0
    for name in (("A", "W") if quick else ("A", "W", "A_asan")):
        rq1 = []; want = []
        for l, _ in cases:
            f = "%d%s" % (len(l), "".join(" %s %s" % (enc([ord(c) for c in k]), "-" if v is None else enc([ord(c) for c in v])) for k, v in l))
            rq1.append("cmalloc 1 0 0 %d %s" % (len(l) % 2, f))
            want.append("&".join(k + ("" if v is None else "=" + v) for k, v in l))
        out1 = qflib.run_lines(exes[name], rq1, chunks=min(lib.NCPU, len(rq1))); nreq += len(rq1)
        rq2 = ["dissect 1 0 0 %d %s" % (i % 4, enc([ord(c) for c in w])) for i, w in enumerate(want)]
        out2 = qflib.run_lines(exes[name], rq2, chunks=min(lib.NCPU, len(rq2))); nreq += len(rq2)
        for (l, what), w, r1, o1, r2, o2 in zip(cases, want, rq1, out1, rq2, out2):
            info = {"request": r1[:90] + " ...", "list": "%d items (%s)" % (len(l), what), "build": name}
            f1 = o1.split()
            if len(f1) != 4 or f1[1] != "0" or f1[3] != "out=0" or (dec(f1[2]) or []) != [ord(c) for c in w]:
                chk.violation("composing a long list: failure, wrong text (%d characters expected) or blocks outstanding" % len(w), dict(info, impl=o1[:160])); continue
            f2 = o2.split()
            items = f2[4:-1]
            exp = [x for k, v in l for x in (enc([ord(c) for c in k]), "-" if v is None else enc([ord(c) for c in v]))]
            if len(f2) < 5 or f2[1] != "0" or f2[2] != str(len(l)) or f2[3] != str(len(l)) or f2[-1] != "out=0" or items != exp:
                chk.violation("dissecting the composed text of a long list does not give the list back (item count %s / %s, expected %d)" % (f2[2] if len(f2) > 2 else "?", f2[3] if len(f2) > 3 else "?", len(l)),
                              dict(info, request=r2[:90] + " ...", impl=o2[:160]))
    chk.cov["evaluations"] += nreq
    return nreq

# ---------------------------------------------------------------------------------- the check
def run(chk):
    proofs = lib.check_proofs(PID)
    exes, mdl = builds()
    quick = chk.tier == "quick"
    check_long(chk, exes)
    # ---- size arithmetic near INT_MAX: the former witnesses (corpus/C17) run first
    nbig, ngiant = check_sizes(chk, exes, mdl)
    lists = gen_lists(chk)
    flagsets = [(s, n) for s in (0, 1) for n in (0, 1)]

    # ---- phase 1: chars-required and the allocating variant, on flavour A, to learn lengths
    p1 = []; p1meta = []
    for li, (l, allc) in enumerate(lists):
        fs = flagsets if len(l) <= 2 else [flagsets[li % 4], flagsets[(li // 4 + 1) % 4]]
        for (stp, nb) in fs:
            f = items_fields(l)
            p1.append("creq 1 %d %d %s" % (stp, nb, f)); p1meta.append((li, stp, nb, "creq"))
            p1.append("cmalloc 1 %d %d %d %s" % (stp, nb, (li + stp) % 2, f)); p1meta.append((li, stp, nb, "cmalloc"))
        if li % 7 == 0:
            f = items_fields(l)
            p1.append("creq 0 0 0 %s" % f); p1meta.append((li, 1, 1, "creq0"))
            p1.append("cmalloc 0 0 0 %d %s" % (li % 2, f)); p1meta.append((li, 1, 1, "cmalloc0"))
    p1.append("creq 1 1 1 0"); p1meta.append((-1, 1, 1, "creq"))
    p1.append("cmalloc 1 1 1 0 0"); p1meta.append((-1, 1, 1, "cmalloc"))
    a1 = qflib.run_lines(exes["A"], p1)
    req = {}; txt = {}
    for rq, o, (li, stp, nb, kind) in zip(p1, a1, p1meta):
        of = o.split()
        if kind.startswith("creq"):
            if len(of) == 3 and of[1] == "0": req[(li, stp, nb)] = int(of[2])
        elif len(of) == 4 and of[1] == "0": txt[(li, stp, nb)] = dec(of[2])

    # ---- phase 2: composing into buffers of chosen capacities; dissecting the composed text
    p2 = []; p2meta = []
    for (li, stp, nb), r in sorted(req.items()):
        if li < 0: continue
        l, allc = lists[li]
        t = txt.get((li, stp, nb))
        ln = len(t) if t is not None else r
        caps = set([0, ln, ln + 1, r, r + 1])
        if allc and (len(l) == 1 or (li + 2 * stp + nb) % 8 == 0 or not quick): caps |= set(range(-1, max(ln, r) + 3))
        f = items_fields(l)
        for cap in sorted(caps):
            p2.append("compose 1 %d %d %d %s" % (stp, nb, cap, f)); p2meta.append((li, stp, nb, cap))
        if stp == 1 and nb == 1 and li % 5 == 0:
            p2.append("compose 0 0 0 %d %s" % (r + 1, f)); p2meta.append((li, 1, 1, r + 1))
    p2.append("compose 1 1 1 10 0"); p2meta.append((-1, 1, 1, 10))
    p3 = []; p3meta = []
    for (li, stp, nb), t in sorted(txt.items()):
        if li < 0: continue
        for pts in ((1,) if stp else (0, 1)):
            p3.append("dissect 1 %d 3 %d %s" % (pts, (li + pts) % 4, enc(t))); p3meta.append((li, stp, nb))
    p4 = gen_dissect(chk)
    # allocation failures (no model: rc must be the malloc code, nothing may stay allocated)
    p5 = []
    for t in ([0x61, 0x3d, 0x62, 0x26, 0x63], [0x61], [0x3d], [0x61, 0x26, 0x62, 0x3d, 0x63, 0x26, 0x64, 0x3d]):
        for k in range(1, 9): p5.append("dissectf 1 3 %d %s" % (k, enc(t)))
    for l in ([([0x61], [0x62])], [([0x61], None), ([], [])]):
        for k in range(1, 3): p5.append("cmallocf 1 1 %d %s" % (k, items_fields(l)))

    reqs = p1 + p2 + p3 + p4
    model = lib.run_lines(mdl, reqs)
    impl = {}
    for fl, exe in exes.items():
        impl[fl] = qflib.run_lines(exe, reqs)
        chk.cov["evaluations"] += len(reqs)
        chk.cov["traces_validated_against_impl"] += len(reqs)
    o1, o2, o3, o4 = len(p1), len(p1) + len(p2), len(p1) + len(p2) + len(p3), len(reqs)

    # ---- oracles on the implementation's own outputs (char and wchar_t builds)
    legal_q = {}; expect_q = {}
    def V(what, rq, o, name, **kw):
        d = {"request": rq, "impl": o, "build": name}; d.update(kw); chk.violation(what, d)
    for name in ("A", "W"):
        out = impl[name]
        rq_req = {}; rq_txt = {}
        for rq, o, (li, stp, nb, kind) in zip(p1, out[:o1], p1meta):
            of = o.split()
            if kind.startswith("creq"):
                if li < 0:
                    if o != "creq 2 -": V("empty list (NULL) must give the NULL code", rq, o, name)
                    continue
                if len(of) != 3 or of[1] not in ("0", "4"): V("chars-required: malformed result", rq, o, name); continue
                if of[1] == "0":
                    rq_req[(li, stp, nb)] = int(of[2])
                    if int(of[2]) < 0: V("chars-required reports success with a negative figure", rq, o, name)
            else:
                if li < 0:
                    if not o.startswith("cmalloc 2 - "): V("empty list (NULL) must give the NULL code", rq, o, name)
                    continue
                if len(of) != 4 or of[3] != "out=0" or "!" in o: V("compose-malloc: malformed result or blocks outstanding", rq, o, name); continue
                if of[1] == "0": rq_txt[(li, stp, nb)] = of[2]
                elif (li, stp, nb) in rq_req and rq_req[(li, stp, nb)] < INT_MAX: V("compose-malloc fails although chars-required succeeded", rq, o, name)
        for (key, t) in rq_txt.items():
            if key in rq_req and len(dec(t)) > rq_req[key]:
                V("composed text longer than the chars-required figure", "list %d" % key[0], t, name, required=rq_req[key])
        ok_text = {}
        for rq, o, (li, stp, nb, cap) in zip(p2, out[o1:o2], p2meta):
            of = o.split()
            if len(of) != 6 or "!" in o: V("compose: malformed result", rq, o, name); continue
            rc, wr, hi, cells, guard = of[1], of[2], int(of[3]), dec(of[4]) or [], of[5]
            if guard != "1" or hi > max(cap, 0): V("compose stored beyond maxChars", rq, o, name); continue
            if li < 0:
                if rc != "2": V("empty list (NULL) must give the NULL code", rq, o, name)
                continue
            if rc == "0":
                if hi < 1 or cells[-1] != 0 or 0 in cells[:-1]: V("compose: no terminator behind the text", rq, o, name); continue
                if int(wr) != hi or hi > cap: V("compose: charsWritten is not text length + 1", rq, o, name)
                t = enc(cells[:-1])
                if ok_text.setdefault((li, stp, nb), t) != t: V("compose: text depends on the capacity", rq, o, name)
                if (li, stp, nb) in rq_txt and rq_txt[(li, stp, nb)] != t: V("compose and compose-malloc give different texts", rq, o, name)
                legal_q.setdefault(t, (rq, o, name))
            elif rc == "4":
                if (li, stp, nb) in rq_req and cap >= rq_req[(li, stp, nb)] + 1:
                    V("compose refuses although maxChars >= chars-required + 1", rq, o, name, required=rq_req[(li, stp, nb)])
                if (li, stp, nb) in rq_txt:
                    full = dec(rq_txt[(li, stp, nb)])
                    body = cells[:-1] if cells and cells[-1] == 0 else cells
                    if body != full[:len(body)]: V("compose: refused call left something that is no prefix of the text", rq, o, name)
            else: V("compose: unexpected return code", rq, o, name)
        for rq, o, (li, stp, nb) in zip(p3, out[o2:o3], p3meta):
            expect_q.setdefault((li, nb), []).append((rq, o, name))
        for rq, o in zip(p4, out[o3:o4]):
            of = o.split()
            if len(of) < 5 or of[1] != "0" or of[-1] != "out=0" or of[2] != of[3] or len(of) != 5 + 2 * int(of[3]):
                V("dissect: failure, wrong item count or blocks outstanding", rq, o, name)
        f5 = qflib.run_lines(exes[name], p5); chk.cov["evaluations"] += len(p5)
        f5b = qflib.run_lines(exes[name + "_asan"], p5); chk.cov["evaluations"] += len(p5)
        for rq, o, ob in zip(p5, f5, f5b):
            of = o.split()
            if o != ob or of[-1] != "out=0" or of[1] not in ("0", "3") or (of[1] == "3" and rq.startswith("dissectf") and of[2] != "0"):
                V("allocation failure: wrong code, item count not reset, or blocks outstanding", rq, o, name, asan=ob)
    # query-legal characters (specification function, once per distinct text)
    lt = sorted(legal_q)
    for t, r in zip(lt, lib.run_lines(mdl, ["spec_qlegal %s" % t for t in lt])):
        if r != "1":
            rq, o, name = legal_q[t]; V("composed text contains a character that is not legal in a query", rq, o, name)
    # round trip (specification: same list, vanishing items dropped, CR LF if normalised)
    keys = sorted(expect_q)
    exp = lib.run_lines(mdl, ["spec_expect %d %s" % (nb, items_fields(lists[li][0])) for (li, nb) in keys])
    for (li, nb), e in zip(keys, exp):
        n = e.split()[0]
        want = "dissect 0 %s %s out=0" % (n, e)
        for rq, o, name in expect_q[(li, nb)]:
            if o != want:
                V("dissect(compose(list)) is not the list", rq, o, name, expected=want, list=items_fields(lists[li][0]))
    # tokenising/splitting specification of dissect, any text
    def spec_rq(r):
        f = r.split()
        return "spec_dissect %s %s %s" % ((f[2], f[3], f[5]) if f[1] == "1" else ("1", "3", f[5]))
    sp = lib.run_lines(mdl, [spec_rq(r) for r in p4])
    for name in ("A", "W"):
        for rq, o, s in zip(p4, impl[name][o3:o4], sp):
            want = "dissect 0 %s %s out=0" % (s.split()[0], s)
            if o != want: V("dissect differs from the splitting specification", rq, o, name, spec=want)

    # ---- correspondence verdict -----------------------------------------------------------
    nm = 0; ncr = 0
    for fl in exes:
        for i, (a, m) in enumerate(zip(impl[fl], model)):
            if a.startswith("!not-run"): continue
            if a.startswith("!crash"):
                ncr += 1
                if ncr <= 5: chk.violation("the implementation crashed or a sanitizer stopped it (%s build)" % fl,
                                           {"request": reqs[i], "impl": a, "build": fl, "model": m})
                continue
            if a != m:
                nm += 1
                if nm <= 30:
                    chk.violation("correspondence broken: model and implementation disagree on %s" % reqs[i].split()[0],
                                  {"correspondence": "Model/Query.v vs src/UriQuery.c", "request": reqs[i], "model": m, "impl": a, "build": fl},
                                  found_input=False)
    # ---- coverage ----------------------------------------------------------------------------
    nontriv = set()
    for rq, m in zip(reqs, model):
        f = m.split()
        if f[0] == "compose" and f[1] in ("0", "4") and f[3] != "0": nontriv.add(rq)
        elif f[0] == "dissect" and len(f) > 3 and f[3] != "0": nontriv.add(rq)
        elif f[0] in ("creq", "cmalloc") and f[1] == "0": nontriv.add(rq)
    chk.cov["distinct_nontrivial"] = len(nontriv)
    chk.cov["rule"] = ("lists: all of <= 2 items over 10 keys x 11 values (NULL included), 3 items exhaustive over a reduced alphabet plus random, "
                       "random longer lists; per list and flag pair: chars-required, compose-malloc (default / counting manager), compose at "
                       "capacities -1..len+2 (all of them for 1-item lists and a rotating eighth of the 2-item lists (all in the thorough tier), else the critical ones), dissect of "
                       "the composed text; dissect of every string of length <= %d over {& = a + %% 0 D A} with all option combinations; "
                       "lists with a worst-case size near or above INT_MAX (former witnesses of corpus/C17 first, totals INT_MAX-2..INT_MAX+3, random ones within a few characters of INT_MAX): "
                       "chars-required and compose-malloc against the size computed in unbounded integers; "
                       "non-trivial = something was stored / an item was produced; distinct by request line; 4 builds each" % (4 if quick else 5))
    chk.cov["distribution"] = {"lists": len(lists), "chars_required_and_malloc": len(p1), "compose": len(p2),
                               "roundtrip_dissect": len(p3), "dissect_any_text": len(p4), "alloc_failure": len(p5), "int_max_lists": nbig, "int_max_lists_over_1MB_strings": ngiant}
    chk.cov["samples"] = [{"request": reqs[i], "model": model[i]} for i in (0, o1 + len(p2) // 2, o2 + len(p3) // 2, o3 + len(p4) // 2, len(reqs) - 1)]
    chk.cov["exhaustive"] = False
    chk.assumptions = ["keys and values over code points 1..255 without 0x5A (the canary used to observe stores)",
                       "query texts, keys and values shorter than INT_MAX characters (the int casts of uriAppendQueryItem are exact)",
                       "allocation failure is exercised on the implementation only (codes, leaks); the model has no failing allocator",
                       "near-INT_MAX lists: items of one group share one key and one value string of 'a's (list nodes are distinct); all four builds, "
                       "compose-malloc only where it refuses up front or the text is below 16 MB"]
    return chk.finish(proofs)

def replay(path):
    r = json.load(open(path))
    exes, mdl = builds()
    rq = r.get("request")
    if not rq or " " not in rq or rq.split()[0] not in ("creq", "compose", "cmalloc", "dissect", "bigreq", "cmallocf", "dissectf", "bigmalloc"):
        print(json.dumps(r, indent=1)); return 0
    print("request:", rq)
    if rq.split()[0] not in ("cmallocf", "dissectf", "bigmalloc"): print("model  :", lib.run_lines(mdl, [rq])[0])
    for fl, exe in exes.items():
        print("impl %-7s:" % fl, lib.run_lines(exe, [rq])[0])
    return 0
