"""C17 — query lists round-trip and composed output fits the stated size."""
import itertools, json, os
import lib, qflib
from lib import enc, dec, show

PID = "C17"
INT_MAX = 2147483647
# key / value alphabet of DESIGN.md: "", a, &, =, +, ' ', %, \n, \r\n, 0x80 ; value additionally NULL
KEYS = [[], [0x61], [0x26], [0x3d], [0x2b], [0x20], [0x25], [0x0a], [0x0d, 0x0a], [0x80]]
VALS = KEYS + [None]
ITEMS = [(k, v) for k in KEYS for v in VALS]
# splitter alphabet: & = a + % 0 D A
SPLIT_ALPHA = [0x26, 0x3d, 0x61, 0x2b, 0x25, 0x30, 0x44, 0x41]

def items_fields(l):
    return "%d%s" % (len(l), "".join(" %s %s" % (enc(k), enc(v)) for k, v in l))

builds = qflib.builds

# ---------------------------------------------------------------------------------- case generation
def gen_lists(chk):
    """-> list of (items, all_caps) ; all_caps: sweep every capacity (else only the critical ones)"""
    rng = chk.rng; quick = chk.tier == "quick"
    out = []
    for it in ITEMS: out.append(([it], True))
    for a in ITEMS:
        for b in ITEMS: out.append(([a, b], True))
    # three items: exhaustive over a reduced alphabet, random over the full one
    K3 = [[], [0x61], [0x26], [0x0d, 0x0a], [0x20]]; V3 = [None, [], [0x3d], [0x0a]]
    I3 = [(k, v) for k in K3 for v in V3]
    if not quick: I3 = ITEMS[::3] + [([], None), ([], [])]
    for t in itertools.product(I3, repeat=3): out.append((list(t), False))
    for _ in range(3000 if quick else 150000):
        out.append(([rng.choice(ITEMS) for _ in range(3)], rng.random() < 0.1))
    # longer lists and longer strings
    for _ in range(300 if quick else 20000):
        n = rng.choice([4, 5, 8, 20])
        l = []
        for _ in range(n):
            k = [rng.choice([0x61, 0x20, 0x26, 0x3d, 0x2b, 0x25, 0x0a, 0x0d, rng.randint(1, 255)]) for _ in range(rng.choice([0, 1, 3, 10]))]
            v = None if rng.random() < 0.3 else [rng.choice([0x61, 0x20, 0x26, 0x3d, 0x2b, 0x25, 0x0a, 0x0d, rng.randint(1, 255)]) for _ in range(rng.choice([0, 1, 3, 10]))]
            k = [c for c in k if c != 0x5a]; v = None if v is None else [c for c in v if c != 0x5a]
            l.append((k, v))
        out.append((l, False))
    return out

def gen_dissect(chk):
    rng = chk.rng; quick = chk.tier == "quick"
    reqs = []
    combos = [(p, b) for p in (0, 1) for b in (0, 1, 2, 3)]
    full = 4 if quick else 5
    top = 5 if quick else 6
    k = 0
    for n in range(0, top + 1):
        for t in itertools.product(SPLIT_ALPHA, repeat=n):
            k += 1
            cs = combos if n <= full else [combos[k % 8]]
            for (p, b) in cs:
                reqs.append("dissect 1 %d %d %d %s" % (p, b, k % 2, enc(list(t))))
            if n <= 3: reqs.append("dissect 0 0 0 %d %s" % (k % 2, enc(list(t))))
    for _ in range(2000 if quick else 100000):
        L = rng.choice([6, 8, 12, 30, 100])
        t = [rng.choice(SPLIT_ALPHA + [0x26, 0x3d, 0x0d, 0x0a, 0x20, rng.randint(1, 255)]) for _ in range(L)]
        reqs.append("dissect 1 %d %d %d %s" % (rng.randint(0, 1), rng.randint(0, 3), rng.randint(0, 1), enc(t)))
    return reqs

# ---------------------------------------------------------------------------------- the check
def run(chk):
    proofs = lib.check_proofs(PID)
    exes, mdl = builds()
    quick = chk.tier == "quick"
    lists = gen_lists(chk)
    flagsets = [(s, n) for s in (0, 1) for n in (0, 1)]

    # ---- phase 1: chars-required and the allocating variant, on flavour A, to learn lengths
    p1 = []; p1meta = []
    for li, (l, allc) in enumerate(lists):
        fs = flagsets if len(l) <= 2 else [flagsets[li % 4], flagsets[(li // 4 + 1) % 4]]
        for (stp, nb) in fs:
            f = items_fields(l)
            p1.append("creq 1 %d %d %s" % (stp, nb, f)); p1meta.append((li, stp, nb, "creq"))
            p1.append("cmalloc 1 %d %d %d %s" % (stp, nb, (li + stp) % 2, f)); p1meta.append((li, stp, nb, "cmalloc"))
        if li % 7 == 0:
            f = items_fields(l)
            p1.append("creq 0 0 0 %s" % f); p1meta.append((li, 1, 1, "creq0"))
            p1.append("cmalloc 0 0 0 %d %s" % (li % 2, f)); p1meta.append((li, 1, 1, "cmalloc0"))
    p1.append("creq 1 1 1 0"); p1meta.append((-1, 1, 1, "creq"))
    p1.append("cmalloc 1 1 1 0 0"); p1meta.append((-1, 1, 1, "cmalloc"))
    a1 = qflib.run_lines(exes["A"], p1)
    req = {}; txt = {}
    for rq, o, (li, stp, nb, kind) in zip(p1, a1, p1meta):
        of = o.split()
        if kind.startswith("creq"):
            if len(of) == 3 and of[1] == "0": req[(li, stp, nb)] = int(of[2])
        elif len(of) == 4 and of[1] == "0": txt[(li, stp, nb)] = dec(of[2])

    # ---- phase 2: composing into buffers of chosen capacities; dissecting the composed text
    p2 = []; p2meta = []
    for (li, stp, nb), r in sorted(req.items()):
        if li < 0: continue
        l, allc = lists[li]
        t = txt.get((li, stp, nb))
        ln = len(t) if t is not None else r
        caps = set([0, ln, ln + 1, r, r + 1])
        if allc and (len(l) == 1 or (li + 2 * stp + nb) % 8 == 0 or not quick): caps |= set(range(-1, max(ln, r) + 3))
        f = items_fields(l)
        for cap in sorted(caps):
            p2.append("compose 1 %d %d %d %s" % (stp, nb, cap, f)); p2meta.append((li, stp, nb, cap))
        if stp == 1 and nb == 1 and li % 5 == 0:
            p2.append("compose 0 0 0 %d %s" % (r + 1, f)); p2meta.append((li, 1, 1, r + 1))
    p2.append("compose 1 1 1 10 0"); p2meta.append((-1, 1, 1, 10))
    p3 = []; p3meta = []
    for (li, stp, nb), t in sorted(txt.items()):
        if li < 0: continue
        for pts in ((1,) if stp else (0, 1)):
            p3.append("dissect 1 %d 3 %d %s" % (pts, (li + pts) % 2, enc(t))); p3meta.append((li, stp, nb))
    p4 = gen_dissect(chk)
    # allocation failures (no model: rc must be the malloc code, nothing may stay allocated)
    p5 = []
    for t in ([0x61, 0x3d, 0x62, 0x26, 0x63], [0x61], [0x3d], [0x61, 0x26, 0x62, 0x3d, 0x63, 0x26, 0x64, 0x3d]):
        for k in range(1, 9): p5.append("dissectf 1 3 %d %s" % (k, enc(t)))
    for l in ([([0x61], [0x62])], [([0x61], None), ([], [])]):
        for k in range(1, 3): p5.append("cmallocf 1 1 %d %s" % (k, items_fields(l)))

    reqs = p1 + p2 + p3 + p4
    model = lib.run_lines(mdl, reqs)
    impl = {}
    for fl, exe in exes.items():
        impl[fl] = qflib.run_lines(exe, reqs)
        chk.cov["evaluations"] += len(reqs)
        chk.cov["traces_validated_against_impl"] += len(reqs)
    o1, o2, o3, o4 = len(p1), len(p1) + len(p2), len(p1) + len(p2) + len(p3), len(reqs)

    # ---- oracles on the implementation's own outputs (char and wchar_t builds)
    legal_q = {}; expect_q = {}
    def V(what, rq, o, name, **kw):
        d = {"request": rq, "impl": o, "build": name}; d.update(kw); chk.violation(what, d)
    for name in ("A", "W"):
        out = impl[name]
        rq_req = {}; rq_txt = {}
        for rq, o, (li, stp, nb, kind) in zip(p1, out[:o1], p1meta):
            of = o.split()
            if kind.startswith("creq"):
                if li < 0:
                    if o != "creq 2 -": V("empty list (NULL) must give the NULL code", rq, o, name)
                    continue
                if len(of) != 3 or of[1] not in ("0", "4"): V("chars-required: malformed result", rq, o, name); continue
                if of[1] == "0":
                    rq_req[(li, stp, nb)] = int(of[2])
                    if int(of[2]) < 0: V("chars-required reports success with a negative figure", rq, o, name)
            else:
                if li < 0:
                    if not o.startswith("cmalloc 2 - "): V("empty list (NULL) must give the NULL code", rq, o, name)
                    continue
                if len(of) != 4 or of[3] != "out=0" or "!" in o: V("compose-malloc: malformed result or blocks outstanding", rq, o, name); continue
                if of[1] == "0": rq_txt[(li, stp, nb)] = of[2]
                elif (li, stp, nb) in rq_req and rq_req[(li, stp, nb)] < INT_MAX: V("compose-malloc fails although chars-required succeeded", rq, o, name)
        for (key, t) in rq_txt.items():
            if key in rq_req and len(dec(t)) > rq_req[key]:
                V("composed text longer than the chars-required figure", "list %d" % key[0], t, name, required=rq_req[key])
        ok_text = {}
        for rq, o, (li, stp, nb, cap) in zip(p2, out[o1:o2], p2meta):
            of = o.split()
            if len(of) != 6 or "!" in o: V("compose: malformed result", rq, o, name); continue
            rc, wr, hi, cells, guard = of[1], of[2], int(of[3]), dec(of[4]) or [], of[5]
            if guard != "1" or hi > max(cap, 0): V("compose stored beyond maxChars", rq, o, name); continue
            if li < 0:
                if rc != "2": V("empty list (NULL) must give the NULL code", rq, o, name)
                continue
            if rc == "0":
                if hi < 1 or cells[-1] != 0 or 0 in cells[:-1]: V("compose: no terminator behind the text", rq, o, name); continue
                if int(wr) != hi or hi > cap: V("compose: charsWritten is not text length + 1", rq, o, name)
                t = enc(cells[:-1])
                if ok_text.setdefault((li, stp, nb), t) != t: V("compose: text depends on the capacity", rq, o, name)
                if (li, stp, nb) in rq_txt and rq_txt[(li, stp, nb)] != t: V("compose and compose-malloc give different texts", rq, o, name)
                legal_q.setdefault(t, (rq, o, name))
            elif rc == "4":
                if (li, stp, nb) in rq_req and cap >= rq_req[(li, stp, nb)] + 1:
                    V("compose refuses although maxChars >= chars-required + 1", rq, o, name, required=rq_req[(li, stp, nb)])
                if (li, stp, nb) in rq_txt:
                    full = dec(rq_txt[(li, stp, nb)])
                    body = cells[:-1] if cells and cells[-1] == 0 else cells
                    if body != full[:len(body)]: V("compose: refused call left something that is no prefix of the text", rq, o, name)
            else: V("compose: unexpected return code", rq, o, name)
        for rq, o, (li, stp, nb) in zip(p3, out[o2:o3], p3meta):
            expect_q.setdefault((li, nb), []).append((rq, o, name))
        for rq, o in zip(p4, out[o3:o4]):
            of = o.split()
            if len(of) < 5 or of[1] != "0" or of[-1] != "out=0" or of[2] != of[3] or len(of) != 5 + 2 * int(of[3]):
                V("dissect: failure, wrong item count or blocks outstanding", rq, o, name)
        f5 = qflib.run_lines(exes[name], p5); chk.cov["evaluations"] += len(p5)
        f5b = qflib.run_lines(exes[name + "_asan"], p5); chk.cov["evaluations"] += len(p5)
        for rq, o, ob in zip(p5, f5, f5b):
            of = o.split()
            if o != ob or of[-1] != "out=0" or of[1] not in ("0", "3") or (of[1] == "3" and rq.startswith("dissectf") and of[2] != "0"):
                V("allocation failure: wrong code, item count not reset, or blocks outstanding", rq, o, name, asan=ob)
    # query-legal characters (specification function, once per distinct text)
    lt = sorted(legal_q)
    for t, r in zip(lt, lib.run_lines(mdl, ["spec_qlegal %s" % t for t in lt])):
        if r != "1":
            rq, o, name = legal_q[t]; V("composed text contains a character that is not legal in a query", rq, o, name)
    # round trip (specification: same list, vanishing items dropped, CR LF if normalised)
    keys = sorted(expect_q)
    exp = lib.run_lines(mdl, ["spec_expect %d %s" % (nb, items_fields(lists[li][0])) for (li, nb) in keys])
    for (li, nb), e in zip(keys, exp):
        n = e.split()[0]
        want = "dissect 0 %s %s out=0" % (n, e)
        for rq, o, name in expect_q[(li, nb)]:
            if o != want:
                V("dissect(compose(list)) is not the list", rq, o, name, expected=want, list=items_fields(lists[li][0]))
    # tokenising/splitting specification of dissect, any text
    def spec_rq(r):
        f = r.split()
        return "spec_dissect %s %s %s" % ((f[2], f[3], f[5]) if f[1] == "1" else ("1", "3", f[5]))
    sp = lib.run_lines(mdl, [spec_rq(r) for r in p4])
    for name in ("A", "W"):
        for rq, o, s in zip(p4, impl[name][o3:o4], sp):
            want = "dissect 0 %s %s out=0" % (s.split()[0], s)
            if o != want: V("dissect differs from the splitting specification", rq, o, name, spec=want)

    # ---- size arithmetic near INT_MAX (lists whose items share one buffer) --------------
    # cheap lists first: thousands of items sharing one 64K string (memory stays below 1 MB)
    big = [(0, 0, 5462, 65536, 65536), (0, 1, 2731, 65536, 65536), (1, 0, 10923, 65536, 65536),
           (0, 0, 32768, 65535, -1), (0, 0, 2, 1000, 1000), (1, 1, 5461, 65536, -1)]
    if not quick:
        # the D10 witness of DESIGN.md (one 716 MB string used as key and value; 2.9 GB as wchar_t),
        # the per-item limits, and a two-item wrap
        big += [(0, 0, 1, 715827881, 715827881), (0, 0, 1, 715827882, -1), (0, 1, 1, 357913941, -1),
                (0, 0, 2, 357913940, 357913940), (0, 0, 3, 715827881, -1)]
    confirmed = []
    def mem_available():
        try:
            for ln in open("/proc/meminfo"):
                if ln.startswith("MemAvailable"): return int(ln.split()[1]) * 1024
        except OSError: pass
        return 0
    for (stp, nb, N, kl, vl) in big:
        rq = "bigreq %d %d %d %d %d" % (stp, nb, N, kl, vl)
        sw, total = lib.run_lines(mdl, ["spec_sumwraps %d %d %d %d" % (nb, N, kl, vl)])[0].split()
        m = lib.run_lines(mdl, [rq])[0] if N <= 200000 else None
        minlen = N * (kl + (0 if vl < 0 else 1 + vl)) + N - 1     # 'a' is never escaped
        for name in ("A", "W"):
            need = int((kl + 1 + (vl + 1 if vl not in (-1, kl) else 0)) * (1 if name == "A" else 4) * 1.25) + (64 << 20)
            if kl > 10**7 and mem_available() < need:
                lib.log("C17: %s skipped on the %s build: needs %d MB, %d MB available" % (rq, name, need >> 20, mem_available() >> 20)); continue
            o = lib.run_lines(exes[name], [rq], chunks=1)[0]; chk.cov["evaluations"] += 1
            om = lib.run_lines(exes[name], ["bigmalloc" + rq[6:]], chunks=1)[0]; chk.cov["evaluations"] += 1
            of = o.split()
            if of[1] == "nomem": lib.log("C17: %s: not enough memory, skipped" % rq); continue
            if m is not None and o != m:
                chk.violation("correspondence broken: model and implementation disagree on the size arithmetic",
                              {"correspondence": "Model/Query.v required_loop vs src/UriQuery.c uriComposeQueryEngine", "request": rq, "model": m, "impl": o, "build": name}, found_input=False)
            wrapped = of[1] == "0" and int(of[2]) < minlen
            if wrapped and sw == "1":
                confirmed.append("%s build: %d item(s) sharing one %d-character key%s, normalizeBreaks=%d -> rc=0 charsRequired=%s (needed >= %d)"
                                 % ("char" if name == "A" else "wchar_t", N, kl, "" if vl < 0 else " and value", nb, of[2], minlen))
            elif wrapped:
                V("chars-required is smaller than the text it is meant to hold", rq, o, name, minimal_length=minlen)
            if int(total) > INT_MAX and om == "bigmalloc 0":
                V("compose-malloc succeeded for a list whose size exceeds INT_MAX", rq, om, name)
    if confirmed:
        chk.known_finding("D10 uriComposeQueryCharsRequiredEx reports success with a wrapped count (shape sum_wraps: every item "
                          "passes the per-item guard, the unchecked sum passes INT_MAX); model witness C17_no_wrap_refuted "
                          "(1 item, key=value=715827881 chars -> -9); on the implementation: "
                          + "; ".join(confirmed[:1] + [c for c in confirmed[1:] if ": 1 item(s) sharing one 715827881-character key and value" in c][:1])
                          + (" (%d confirmations in all)" % len(confirmed)))

    # ---- correspondence verdict -----------------------------------------------------------
    nm = 0; ncr = 0
    for fl in exes:
        for i, (a, m) in enumerate(zip(impl[fl], model)):
            if a.startswith("!not-run"): continue
            if a.startswith("!crash"):
                ncr += 1
                if ncr <= 5: chk.violation("the implementation crashed or a sanitizer stopped it (%s build)" % fl,
                                           {"request": reqs[i], "impl": a, "build": fl, "model": m})
                continue
            if a != m:
                nm += 1
                if nm <= 30:
                    chk.violation("correspondence broken: model and implementation disagree on %s" % reqs[i].split()[0],
                                  {"correspondence": "Model/Query.v vs src/UriQuery.c", "request": reqs[i], "model": m, "impl": a, "build": fl},
                                  found_input=False)
    # ---- coverage ----------------------------------------------------------------------------
    nontriv = set()
    for rq, m in zip(reqs, model):
        f = m.split()
        if f[0] == "compose" and f[1] in ("0", "4") and f[3] != "0": nontriv.add(rq)
        elif f[0] == "dissect" and len(f) > 3 and f[3] != "0": nontriv.add(rq)
        elif f[0] in ("creq", "cmalloc") and f[1] == "0": nontriv.add(rq)
    chk.cov["distinct_nontrivial"] = len(nontriv)
    chk.cov["rule"] = ("lists: all of <= 2 items over 10 keys x 11 values (NULL included), 3 items exhaustive over a reduced alphabet plus random, "
                       "random longer lists; per list and flag pair: chars-required, compose-malloc (default / counting manager), compose at "
                       "capacities -1..len+2 (all of them for 1-item lists and a rotating eighth of the 2-item lists (all in the thorough tier), else the critical ones), dissect of "
                       "the composed text; dissect of every string of length <= %d over {& = a + %% 0 D A} with all option combinations; "
                       "non-trivial = something was stored / an item was produced; distinct by request line; 4 builds each" % (4 if quick else 5))
    chk.cov["distribution"] = {"lists": len(lists), "chars_required_and_malloc": len(p1), "compose": len(p2),
                               "roundtrip_dissect": len(p3), "dissect_any_text": len(p4), "alloc_failure": len(p5), "int_max_lists": len(big)}
    chk.cov["samples"] = [{"request": reqs[i], "model": model[i]} for i in (0, o1 + len(p2) // 2, o2 + len(p3) // 2, o3 + len(p4) // 2, len(reqs) - 1)]
    chk.cov["exhaustive"] = False
    chk.assumptions = ["keys and values over code points 1..255 without 0x5A (the canary used to observe stores)",
                       "query texts, keys and values shorter than INT_MAX characters (the int casts of uriAppendQueryItem are exact)",
                       "allocation failure is exercised on the implementation only (codes, leaks); the model has no failing allocator",
                       "the near-INT_MAX lists run on the plain builds only: the UBSan builds stop at the signed overflow in UriQuery.c:237"]
    return chk.finish(proofs)

def replay(path):
    r = json.load(open(path))
    exes, mdl = builds()
    rq = r.get("request")
    if not rq or " " not in rq or rq.split()[0] not in ("creq", "compose", "cmalloc", "dissect", "bigreq", "cmallocf", "dissectf", "bigmalloc"):
        print(json.dumps(r, indent=1)); return 0
    print("request:", rq)
    if rq.split()[0] not in ("cmallocf", "dissectf", "bigmalloc"): print("model  :", lib.run_lines(mdl, [rq])[0])
    for fl, exe in exes.items():
        if rq.startswith("big") and "asan" in fl: continue
        print("impl %-7s:" % fl, lib.run_lines(exe, [rq])[0])
    return 0
