#!/usr/bin/env python3
"""Translator: the partitions of the code points 0..255 induced by the `switch` statements on characters
of the C sources (current working tree, lib.REPO/src), written as Coq data (coq/Generated/SwitchTables.v).

For every `switch` all of whose case labels are character literals (`_UT('x')`, `'x'`, `L'x'`, or the
URI_SET_* macros, expanded from their #define text) the case GROUPS are listed: maximal runs of labels
with no statement between them.  A group that contains `default:` belongs to the remaining group and is
not listed.  A switch is named  <file>:<function>#<ordinal among the character switches of the function>.
Nothing here is trusted to be a C parser: comments, strings, preprocessor lines other than the URI_SET_*
defines are dropped, both arms of #if are read."""
import hashlib, os, re, sys

FILES = ["UriParse.c", "UriIp4.c", "UriCommon.c", "UriNormalize.c", "UriNormalizeBase.c", "UriEscape.c",
         "UriQuery.c", "UriFile.c"]
TOKEN = re.compile(r"""/\*.*?\*/|//[^\n]*|L?"(?:\\.|[^"\\])*"|L?'(?:\\.|[^'\\])+'|[A-Za-z_]\w*|\d\w*|\S""", re.S)
SIMPLE_ESC = {"0": 0, "n": 10, "r": 13, "t": 9, "a": 7, "b": 8, "f": 12, "v": 11, "\\": 92, "'": 39, '"': 34, "?": 63}

class TranslateError(Exception): pass

def char_value(tok):
    """code point of a character literal token ('x', L'x', '\\n', '\\x0a', '\\0', '\\101')"""
    body = tok[tok.index("'") + 1:-1]
    if not body.startswith("\\"):
        if len(body) != 1: raise TranslateError("multi-character literal " + tok)
        return ord(body)
    e = body[1:]
    if e in SIMPLE_ESC: return SIMPLE_ESC[e]
    if e[0] in "xX" and re.fullmatch(r"[0-9a-fA-F]+", e[1:]): return int(e[1:], 16)
    if re.fullmatch(r"[0-7]{1,3}", e): return int(e, 8)
    raise TranslateError("unknown escape " + tok)

def tokens_of(text):
    return [t for t in TOKEN.findall(text) if not t.startswith(("/*", "//"))]

def read_source(text):
    """-> (defines {name: tokens} for the URI_SET_* macros, tokens of the rest)"""
    text = re.sub(r"/\*.*?\*/", lambda m: "\n" * m.group(0).count("\n"), text, flags=re.S)   # comments first: they may hold '#'
    text = text.replace("\\\r\n", "\\\n")
    defines = {}; rest = []
    lines = text.split("\n"); i = 0
    while i < len(lines):
        ln = lines[i]
        if ln.lstrip().startswith("#"):
            while ln.endswith("\\") and i + 1 < len(lines):
                i += 1; ln = ln[:-1] + " " + lines[i]
            m = re.match(r"\s*#\s*define\s+(URI_SET_\w+)\s+(.*)$", ln, re.S)
            if m: defines[m.group(1)] = tokens_of(m.group(2))
        else:
            rest.append(ln)
        i += 1
    return defines, tokens_of("\n".join(rest))

def expand(toks, defines, depth=0):
    if depth > 20: raise TranslateError("macro recursion")
    out = []
    for t in toks:
        out += expand(defines[t], defines, depth + 1) if t in defines else [t]
    return out

def label_value(expr):
    """tokens between `case` and `:` -> code point, or None when the label is not a character literal"""
    if len(expr) == 4 and expr[0] == "_UT" and expr[1] == "(" and expr[3] == ")": expr = expr[2:3]
    if len(expr) == 1 and expr[0].endswith("'") and expr[0][0] in "'L": return char_value(expr[0])
    return None

def parse_switch(toks, i, found):
    """toks[i] == 'switch'.  Appends (position, labelled groups, all labels are characters) to `found`
    for this switch and every switch nested in it; returns the index after the closing brace."""
    pos = i
    i += 1
    if toks[i] != "(": raise TranslateError("switch without (")
    d = 0
    while True:
        d += {"(": 1, ")": -1}.get(toks[i], 0); i += 1
        if d == 0: break
    if toks[i] != "{": raise TranslateError("switch body is not a block")
    i += 1; depth = 1
    groups = []; cur = None; chars = True           # cur: the group still open (no statement seen since its last label)
    while depth > 0:
        t = toks[i]
        if t in ("case", "default") and toks[i - 1] != ".":
            j = i + 1
            while toks[j] != ":": j += 1
            if cur is None: cur = []; groups.append(cur)
            if t == "default": cur.append("default")
            else:
                v = label_value(toks[i + 1:j])
                if v is None: chars = False
                cur.append(v)
            i = j + 1; continue
        cur = None                                   # anything else is (part of) a statement
        if t == "switch": i = parse_switch(toks, i, found); continue
        depth += {"{": 1, "}": -1}.get(t, 0); i += 1
    found.append((pos, groups, chars))
    return i

def switches_of_file(toks):
    """-> list of (function name, position, groups, chars) in source order"""
    res = []; depth = 0; paren = 0; fn = None; i = 0
    while i < len(toks):
        t = toks[i]
        if depth == 0:
            if t == "(": paren += 1
            elif t == ")": paren -= 1
            elif paren == 0 and re.match(r"[A-Za-z_]\w*$", t) and i + 1 < len(toks) and toks[i + 1] == "(":
                fn = ("uri" + toks[i + 2]) if t == "URI_FUNC" else t
        if t == "switch" and depth > 0:
            found = []
            i = parse_switch(toks, i, found)
            res += [(fn,) + f for f in found]
            continue
        depth += {"{": 1, "}": -1}.get(t, 0); i += 1
    res.sort(key=lambda r: r[1])
    return res

def translate(srcdir):
    """-> (tables [(name, [[code points]])], macro sets {name: [code points]}, skipped names, {file: sha256})"""
    tables = []; sets = {}; skipped = []; hashes = {}
    for f in FILES:
        p = os.path.join(srcdir, f)
        if not os.path.exists(p): continue
        raw = open(p, "rb").read()
        hashes[f] = hashlib.sha256(raw).hexdigest()
        defines, toks = read_source(raw.decode("latin-1"))
        for name, body in defines.items():
            vals = [char_value(t) for t in expand(body, defines) if t.endswith("'") and t[0] in "'L"]
            if name in sets and sets[name] != sorted(set(vals)): raise TranslateError("two definitions of " + name)
            sets[name] = sorted(set(vals))
        count = {}; nonchar = {}
        for fn, _pos, groups, chars in switches_of_file(expand(toks, defines)):
            if not chars or not any(v != "default" for g in groups for v in g):
                nonchar[fn] = nonchar.get(fn, 0) + 1
                skipped.append("%s:%s (switch %d of those not on character literals)" % (f, fn, nonchar[fn]))
                continue
            count[fn] = count.get(fn, 0) + 1
            listed = sorted(sorted(set(g)) for g in groups if "default" not in g)
            flat = [c for g in listed for c in g]
            if len(flat) != len(set(flat)): raise TranslateError("a label occurs in two groups of %s:%s" % (f, fn))
            if any(c > 255 for c in flat): raise TranslateError("label above 255 in %s:%s" % (f, fn))
            tables.append(("%s:%s#%d" % (f, fn, count[fn]), listed))
    if not any(n.startswith("UriParse.c:") for n, _ in tables) or "URI_SET_ALPHA" not in sets:
        raise TranslateError("no character switch / no URI_SET_* macro found in %s/UriParse.c" % srcdir)
    tables.sort()
    return tables, sets, sorted(skipped), hashes

def coq_list(l, indent=6):
    out = "["; col = indent
    for k, c in enumerate(l):
        piece = str(c) + ("; " if k + 1 < len(l) else "")
        if col + len(piece) > 100: out += "\n" + " " * indent; col = indent
        out += piece; col += len(piece)
    return out + "]"

def render(srcdir):
    tables, sets, skipped, hashes = translate(srcdir)
    o = ["(* GENERATED by gen/switchtables.py from the C sources; do not edit.  Regenerated on every check",
         "   (gen/lib.py: regen_switchtables) from the tree that is being checked.  Data only.",
         "   Sources: " + ", ".join("src/" + f for f in sorted(hashes)) + ".",
         "   (No content hash here on purpose: the file must change exactly when a table changes, so that a tree whose",
         "   switches are the same does not force a rebuild of the proofs that rest on this file.)"]
    o += ["   %d switch statements on characters; switches on other values, not translated:" % len(tables)]
    o += ["     " + s for s in skipped] + ["*)",
          "From Coq Require Import List NArith String.", "Import ListNotations.", "Local Open Scope N_scope.", "Local Open Scope string_scope.", ""]
    for name in sorted(sets):
        o.append("Definition set_%s : list N := %s." % (name, coq_list(sets[name])))
    o += ["", "(* name = file:function#ordinal; the groups of case labels sharing one body, as code points;",
          "   every code point not listed is in the remaining (default) group *)",
          "Definition switch_tables : list (string * list (list N)) := ["]
    rows = ['  ("%s",\n    [%s])' % (n, ";\n     ".join(coq_list(g) for g in gs)) for n, gs in tables]
    o += [";\n".join(rows), "]."]
    return re.sub(r" +\n", "\n", "\n".join(o) + "\n")

if __name__ == "__main__":
    sys.path.insert(0, os.path.dirname(os.path.abspath(__file__)))
    import lib
    sys.stdout.write(render(os.path.join(lib.REPO, "src")))
