"""C09 — normalization never changes what a reference identifies."""
import json, os
import lib, uris
from lib import enc, enc_s, dec, show

PID = "C09"
SPECIAL = []
SHAPES = {"71": "c08_rel_cancels", "74": "c08_rel_stale_dot", "75": "c08_rel_dot_eaten", "72": "c08_rel_exposes_colon", "73": "c08_rel_exposes_empty"}

def gen(chk, mdl):
    q = chk.tier == "quick"
    refs = uris.valid_texts(mdl, uris.small_texts(3 if q else 4, queries=(None,)))
    refs += uris.valid_texts(mdl, uris.small_texts(2, alphabet=["a", "..", ".", "%41", "B:c"], auths=(None, "//H"), schemes=(None, "S"), queries=(None, "%7e"), frags=(None, "F")))
    refs += ["./b:c/" + "/".join(t) for n in range(1, 4) for t in __import__("itertools").product(["..", ".", "x", ""], repeat=n)]
    global SPECIAL
    SPECIAL = ["//ex%41mple.com/a", "//%50%59", "//a%41", "//x%41y/../b", "s://ex%41mple.com", "//u@x%59:8/a"]     # a decoded triplet is the host's only upper-case letter
    SPECIAL += uris.valid_texts(mdl, [pre + sg + post for sg in uris.COLON_SEGS for pre in ("./", "x/../", "", "a/") for post in ("", "/t", "/..")])
    refs += SPECIAL
    refs = [r for r in sorted(set(refs)) if "%2e" not in r.lower()]          # the property excludes percent-encoded dot segments
    bases = [t for t in uris.valid_texts(mdl, uris.small_texts(2, queries=(None, "q"))) if t.startswith("s:")]
    bases += ["s://u@[::1]:8/a/b?q", "S://H/%41/b", "s:a/b/c", "s:/a/b/c", "s://h/a/b/c/d;p?q", "s:/a/b/c/d/e", "s:a/b/c/d"]
    # long runs of ".." (only a base several levels deep tells them apart)
    refs += ["../../../g", "../../../../g/h", "../../..", "../.././../g", "x/../../../../g", "../../x/../../g?q#f", "../../../../..", "a/../../../.."]
    return refs, sorted(set(bases))

def degenerate_pairs(mdl):
    """references in which every component is absent / present but empty / non-empty, against bases with and without (empty) query
    and fragment: RFC 3986 5.2.2 tells "?" (empty query) from "" (the base's query), "#" from no fragment, "//" from no authority"""
    refs = [t for t in uris.degenerate_texts() if not any(x in t for x in ("[", "1.2.3.4", "//:8", "u:p"))]
    refs = uris.valid_texts(mdl, refs)
    bases = ["s://h/a/b?q#f", "s://h/a/b?", "s://h/a/b", "s://h?q", "s://h", "s:/a?q", "s:a?q", "s:?q", "s:", "s://u@h:8/a?q", "s:///a?q#", "s://h/?#"]
    return [(r, b) for b in bases for r in refs]

def run(chk):
    extra = tuple(x for x in ("C09text",) if os.path.exists(os.path.join(lib.COQ, "Props", x + ".v")))
    proofs = lib.check_proofs(PID, extra_props=extra)
    exes = lib.build_impl(); mdl = lib.build_model()
    fnd = lib.Findings(PID)
    refs, bases = gen(chk, mdl)
    H = uris.hist
    pairs = [(r, b) for b in bases for r in refs]
    if chk.tier == "quick" and len(pairs) > 70000:
        deep = [(r, b) for (r, b) in pairs if r.count("..") >= 3 and b.count("/") >= 4]
        sp = set(SPECIAL); keep = [(r, b) for (r, b) in pairs if r in sp and (b.count("/") >= 3 or "?" in b)]
        pairs = chk.rng.sample(pairs, 70000) + deep + keep
    pairs += degenerate_pairs(mdl)
    # slot 0 = R, 1 = B, 2 = normalized copy of R; 3 = N(resolve(N(R),B)); 4 = N(resolve(R,B))
    reqs = [H([('p', 0, r), ('p', 1, b), ('p', 2, r), ('n', 2, 63), ('a', 3, 2, 1, 0), ('n', 3, 63), ('a', 4, 0, 1, 0), ('n', 4, 63), ('e', 3, 4)]) for r, b in pairs]
    model = lib.run_lines(mdl, reqs)
    refs = sorted(set(r for r, _ in pairs))
    spec_n = dict(zip(refs, lib.run_lines(mdl, ["spec_normal " + enc_s(r) for r in refs])))
    nontrivial = set(); corr = []; suspects = []; kind_sus = []
    for fl, stride in {"A": 1, "W": 1, "A_asan": 9, "W_asan": 13}.items():
        idx = [i for i in range(len(reqs)) if i % stride == 0]
        impl = lib.run_lines(exes[fl], [reqs[i] for i in idx])
        chk.cov["evaluations"] += len(idx); chk.cov["traces_validated_against_impl"] += len(idx)
        seen_ref = set()
        for i, o in zip(idx, impl):
            r, b = pairs[i]
            steps, end = uris.parse_hist(o)
            if steps is None or any("bad" in s for s in steps) or end["live"] != 0 or end["bad"] != 0:
                chk.violation("crash, malformed object or unbalanced memory: " + o[-200:], {"request": reqs[i], "build": fl, "impl": o}); continue
            if o != model[i]: corr.append((i, fl, o))
            n_r, d1, d2, eq = steps[3], steps[5], steps[7], steps[8]
            if any(s.get("rc") != 0 for s in (n_r, d1, d2)):
                chk.violation("an operation of the pipeline failed", {"request": reqs[i], "build": fl, "impl": o}); continue
            if d1["obj"].key() != d2["obj"].key() or eq.get("eq") != 1:
                suspects.append((r, b, fl, o, i, n_r["text"]))
            if fl == "A":
                nontrivial.add((r, b))
            if r not in seen_ref:
                seen_ref.add(r)
                kind_sus.append((r, steps[0]["text"], n_r["text"], fl, o, i))
    # commutation failures: known only when normalizing R alone has the "cancels completely" shape
    shp = lib.run_lines(mdl, ["shape_c08 %s %s %s" % (enc_s(r), spec_n[r], nt) for (r, b, fl, o, i, nt) in suspects])
    for (r, b, fl, o, i, nt), sh in zip(suspects, shp):
        name = SHAPES.get(sh)
        # only the shapes that change what the reference identifies can break the commutation
        # ... and only where the frozen model fails in the same way on this very input
        if name in ("c08_rel_cancels", "c08_rel_dot_eaten") and o == model[i] and fnd.covers(name, {"reference": r, "base": b}): continue
        chk.violation("normalize(resolve(normalize(R), B)) differs from normalize(resolve(R, B))",
                      {"request": reqs[i], "reference": r, "base": b, "build": fl, "impl": o, "shape": name})
    # kind preservation of normalization on R alone
    kinds = lib.run_lines(mdl, ["ref_kind " + t for x in kind_sus for t in (x[1], x[2])])
    def kind_differs(k0, k1):
        a, b = k0.split(), k1.split()
        if a[:2] != b[:2]: return True                       # scheme or authority added / removed
        return a[:2] == ["0", "0"] and a[2] != b[2]          # path kind only constrained for references that have neither
    bad = [(x, kinds[2 * j], kinds[2 * j + 1]) for j, x in enumerate(kind_sus) if kind_differs(kinds[2 * j], kinds[2 * j + 1])]
    shp = lib.run_lines(mdl, ["shape_c08 %s %s %s" % (enc_s(x[0]), spec_n[x[0]], x[2]) for x, _, _ in bad])
    for (x, k0, k1), sh in zip(bad, shp):
        r, t0, t1, fl, o, i = x
        name = SHAPES.get(sh)
        if name and o == model[i] and fnd.covers(name, {"reference": r}): continue
        chk.violation("normalization changed the kind of the reference (scheme, authority, path kind): %s -> %s" % (k0, k1),
                      {"request": reqs[i], "reference": r, "build": fl, "impl": o, "before": show(t0), "after": show(t1), "shape": name})
    if corr and not chk.violations:
        i, fl, o = corr[0]
        chk.violation("correspondence broken: model and implementation disagree on the normalize/resolve pipeline (%d cases)" % len(corr),
                      {"correspondence": "Model/Normalize.v, Model/Resolve.v vs src", "request": reqs[i], "build": fl, "impl": o, "model": model[i]}, found_input=False)
    still = {}
    for f in fnd.items:
        t = f["witness_args"][0]
        o = lib.run_lines(exes["A"], [H([('p', 0, t), ('n', 0, 63)])])[0]
        steps, _ = uris.parse_hist(o)
        k = lib.run_lines(mdl, ["ref_kind " + steps[0]["text"], "ref_kind " + steps[1]["text"]])
        still[f["shape"]] = k[0] != k[1] or f["shape"] == "c08_rel_exposes_colon" and steps[1]["text"] != lib.run_lines(mdl, ["spec_normal " + enc_s(t)])[0]
    fnd.report(chk, still)
    chk.cov["distinct_nontrivial"] = len(nontrivial)
    chk.cov["rule"] = "references (no percent-encoded dots) with paths of <= %d segments over {'', '.', '..', 'a', 'b:c'} and case/percent variants x absolute bases with <= 2 segments and a query; both pipelines as one history per pair; kind preservation on every reference; distinct by (reference, base)" % (3 if chk.tier == "quick" else 4)
    chk.cov["distribution"] = {"references": len(refs), "bases": len(bases), "pairs": len(pairs), "known_finding_hits": fnd.hits}
    chk.cov["samples"] = [{"request": reqs[i], "model": model[i]} for i in (0, len(reqs) // 2)]
    return chk.finish(proofs)

def replay(path):
    r = json.load(open(path)); exes = lib.build_impl(); mdl = lib.build_model()
    rq = r.get("request")
    if not rq: print(json.dumps(r, indent=1)); return 0
    print("request:", rq); print("model  :", lib.run_lines(mdl, [rq])[0])
    for fl, exe in exes.items(): print("impl %-7s:" % fl, lib.run_lines(exe, [rq])[0])
    return 0
