"""C02 — parsed components are the exact RFC 3986 sub-ranges of the input; host kind and address bytes."""
import json
import lib, parsesuite, c01
from lib import enc, enc_s, dec, show

PID = "C02"

def run(chk):
    import os
    extra = tuple(x for x in ("C02ip4", "C02ip6") if os.path.exists(os.path.join(lib.COQ, "Props", x + ".v")))
    proofs = lib.check_proofs(PID, extra_props=extra)
    exes = lib.build_impl(); mdl = lib.build_model()
    nstates, suite, rnd, corpus, narrow, wide = c01.build_inputs(chk, mdl)
    have = set(narrow)
    trip = [f for f in c01.pair_triple_accepted(mdl) if f not in have]
    plan = {"A": [(narrow, [3, 2, 0, 5]), (trip, [3])], "W": [(narrow, [3, 4, 1]), (wide, [3]), (trip, [5])],
            "A_asan": [(narrow, [3])], "W_asan": [(narrow, [2]), (wide, [3])]}
    model_cache = {}; spec_cache = {}
    kinds = {"regname": 0, "ip4": 0, "ip6": 0, "ipfuture": 0, "nohost": 0}
    nontrivial = set(); corr = []
    for fl, parts in plan.items():
        reqs = [("parse %s %d" % (f, e)) for strs, entries in parts for e in entries for f in strs]
        impl = lib.run_lines(exes[fl], reqs)
        need = [r for r in reqs if r not in model_cache]
        for r, o in zip(need, lib.run_lines(mdl, need)): model_cache[r] = o
        chk.cov["evaluations"] += len(reqs); chk.cov["traces_validated_against_impl"] += len(reqs)
        # spec: for accepted texts the splitter's object
        acc = [(rq, o) for rq, o in zip(reqs, impl) if o.startswith("parse 0 ")]
        sreq = []
        for rq, o in acc:
            f = rq.split()
            eff = c01.until_nul(f[1]) if int(f[2]) in c01.TERMINATED else f[1]
            sreq.append("spec_split " + eff)
        need = sorted(set(r for r in sreq if r not in spec_cache))
        for r, o in zip(need, lib.run_lines(mdl, need)): spec_cache[r] = o
        for (rq, o), sr in zip(acc, sreq):
            sp = spec_cache[sr]
            core = o.split(" live=")[0]
            if "!" in core or " bad" in core.split()[-1]:
                chk.violation("malformed object after a successful parse (half-NULL / reversed range / tail not last)", {"request": rq, "build": fl, "impl": o})
            elif core != sp:
                chk.violation("a parsed component differs from the RFC 3986 decomposition", {"request": rq, "input": show(rq.split()[1]), "build": fl, "impl": core, "rfc_split": sp})
            if fl == "A":
                w = core.split()
                k = "nohost" if w[6] == "-" else "ip4" if w[7] != "-" else "ip6" if w[8] != "-" else "ipfuture" if w[9] != "-" else "regname"
                kinds[k] += 1
                nontrivial.add(core)
        for rq, o in zip(reqs, impl):
            if o.split(" live=")[0] != model_cache[rq].split(" live=")[0]: corr.append((rq, fl, o, model_cache[rq]))
    # the public IPv4 parser (uriParseIpFourAddress) must classify every host text as the URI parser does
    hosts = [f for f in narrow if model_cache.get("parse %s 3" % f, "").startswith("parse 0 ")]
    hosts = [f for f in hosts if "2e" in f.split(".")][:6000]
    lib.wrapper_check(chk, exes, [(f, enc_s("s:a")) for f in hosts], ("ip4address",), "uriParseIpFourAddress disagrees with the host classification of the URI parser (%s)")
    if corr and not chk.violations:
        rq, fl, o, m = corr[0]
        chk.violation("correspondence broken: Model/Parse.v and the implementation build different objects (%d cases)" % len(corr),
                      {"correspondence": "Model/Parse.v (data actions) vs src/UriParse.c", "request": rq, "build": fl, "impl": o, "model": m}, found_input=False)
    chk.cov["distinct_nontrivial"] = len(nontrivial)
    chk.cov["states"] = nstates
    chk.cov["rule"] = "same inputs as C01 (automaton conformance suite, grammar-directed, mutations, repository test strings, wide-only); non-trivial = accepted; distinct by resulting object"
    chk.cov["distribution"] = {"inputs": len(narrow), "wide_only": len(wide), "host_kinds(A)": kinds}
    some = [r for r in model_cache if model_cache[r].startswith("parse 0")][:3]
    chk.cov["samples"] = [{"input": show(r.split()[1]), "object": model_cache[r]} for r in some]
    return chk.finish(proofs)

def replay(path):
    return c01.replay(path)
