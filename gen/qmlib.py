"""Query-list requests of C13 / C14: uriDissectQueryMallocExMm, uriComposeQueryMallocExMm, uriFreeQueryListMm with the
recording / fault-injecting manager (harness/drv_query.inc) against the memory tier of the model (coq/Model/QueryM.v,
ocaml/driver_qm.ml).  Oracles are evaluated on the implementation's own lines."""
import itertools
import lib
from lib import enc, enc_s

CORR = "Model/QueryM.v (dissect_m, compose_m, free_query_list_m) vs src/UriQuery.c (allocation order, sizes, error exits, *dest)"

def build_model():
    return lib.build_model(extract="qmmodel", driver="driver_qm.ml")

def is_query(rq):
    return rq.startswith("q")

# ----------------------------------------------------------------------------- cases
def dissect_texts(chk, n_random):
    """query texts aimed at the case splits of the scan: '&' (item boundary, trailing '&' -> keyFirst NULL), first and
    later '=', empty key with / without value, escapes that shorten the copy, %00 cutting the C string"""
    out = [""]
    for n in range(1, 5):
        for t in itertools.product("a&=", repeat=n): out.append("".join(t))
    out += ["a=b&c=d&e", "%41=%42&+=+", "a%00b=c%00d&e", "%0D%0A=%0A&x=%0D", "a==b&=&&==", "k=v&k=v&k=v&k=v&k", "&&&&", "====",
            "a&b&c&d&e&f&g&h", "abc=defgh&ij=&=kl&mn", "%", "%4", "a=%", "+&+=+"]
    alpha = ["a", "b", "&", "&", "=", "=", "+", "%41", "%00", "%0A", "%0D%0A", "é", "z"]
    for _ in range(n_random):
        out.append("".join(chk.rng.choice(alpha) for _ in range(chk.rng.randint(3, 24))))
    seen = set(); res = []
    for t in out:
        if t not in seen: seen.add(t); res.append(t)
    return res

def compose_lists(chk, n_random):
    """lists of <= 3 items over small key / value alphabets (value NULL included), plus random ones; the empty list is the NULL pointer"""
    keys = ["", "a", "&", " ", "\n", "\r\n"]; vals = [None, "", "b", "=", " \n"]
    items = [(k, v) for k in keys for v in vals]
    out = [[]] + [[it] for it in items]
    out += [[a, b] for a in items[::4] for b in items[::5]]
    for _ in range(n_random):
        out.append([chk.rng.choice(items) for _ in range(chk.rng.randint(1, 6))])
    return out

def rq_dissect(t, pts=1, bc=3, x=False): return "%s %d %d %s" % ("qdissectx" if x else "qdissect", pts, bc, enc_s(t))
def rq_compose(l, stp=1, nb=1):
    return "qcompose %d %d %d%s" % (stp, nb, len(l), "".join(" %s %s" % (enc_s(k), enc_s(v)) for k, v in l))
def rq_chain(t, pts=1, bc=3, stp=1, nb=1): return "qchain %d %d %d %d %s" % (pts, bc, stp, nb, enc_s(t))

def calls(chk, many):
    """the calls (without fault plan) whose every failure position is explored"""
    q = chk.tier == "quick"
    texts = dissect_texts(chk, (40 if q else 1500) * (2 if many else 1))
    lists = compose_lists(chk, (30 if q else 1000) * (2 if many else 1))
    cs = []
    for i, t in enumerate(texts):
        cs.append(rq_dissect(t, pts=1 if i % 3 else 0, bc=(3, 0, 1, 2)[i % 4]))
        if i % 2 == 0: cs.append(rq_chain(t, stp=i % 4 != 0, nb=i % 3 != 0))
        if i % 3 == 0: cs.append(rq_dissect(t, x=True))
    for i, l in enumerate(lists):
        cs.append(rq_compose(l, stp=i % 2, nb=1 if i % 3 else 0))
    return cs

# ----------------------------------------------------------------------------- lines
def fields(o):
    """key=value fields of a result line + the positional head"""
    w = o.split()
    kv = {}
    for x in w:
        if "=" in x and not x.startswith("="):
            k, v = x.split("=", 1)
            if k in ("dest", "ro", "live1", "live", "bad", "req", "trace", "ftrace"): kv[k] = v
    return w, kv

def oracle(rq, o, k, base):
    """property oracle on one implementation line; k = failing position (0 = no fault); base = the fault-free line of
    the same call on the same build.  Returns a description of the problem or None."""
    w, kv = fields(o)
    op = w[0]
    try:
        live = int(kv["live"]); bad = int(kv["bad"]); req = int(kv["req"])
    except (KeyError, ValueError):
        return "malformed result line"
    injected = k > 0 and req >= k
    if op == "qdissectx":
        # the caller hands a stale *dest to uriFreeQueryListMm: only the correspondence is checked (known deviation)
        return None
    if kv.get("ro", "1") != "1": return "the read-only input (query text / query list) was modified"
    if bad != 0: return "a block was released twice or one was released that the manager never handed out"
    if live != 0: return "%d block(s) still allocated after the caller's clean-up (free query list / free of the string; nothing after a failure)" % live
    if op == "qdissect":
        rc, count, n = int(w[1]), int(w[2]), int(w[4])
        if injected and rc != 3: return "allocation request %d was refused but uriDissectQueryMallocExMm returned %d instead of URI_ERROR_MALLOC" % (k, rc)
        if not injected and rc == 3: return "URI_ERROR_MALLOC although no request was refused"
        if rc == 3 and (count != 0 or int(kv["live1"]) != 0): return "after URI_ERROR_MALLOC the item count is %d and %s block(s) of the partial list are left" % (count, kv["live1"])
        if rc == 0 and (count != n or (kv["dest"] == "1") != (n > 0)): return "item count %d / *dest do not match the list of %d item(s)" % (count, n)
        if not injected and k > 0 and base is not None and w[1:5 + 2 * n] != base.split()[1:5 + 2 * n]: return "no request was refused, yet the result differs from the fault-free run"
    elif op == "qcompose":
        rc = int(w[1])
        if injected and rc != 3: return "the allocation request was refused but uriComposeQueryMallocExMm returned %d instead of URI_ERROR_MALLOC" % rc
        if not injected and rc == 3: return "URI_ERROR_MALLOC although no request was refused"
        if (rc == 0) != (kv["dest"] == "1"): return "*dest written although the call failed (or left NULL although it succeeded)"
        if rc == 0 and kv["live1"] != "1": return "%s blocks allocated by a successful compose (expected: the string only)" % kv["live1"]
        if rc != 0 and kv["live1"] != "0": return "%s block(s) left by a failed compose" % kv["live1"]
        if not injected and k > 0 and base is not None and w[1:3] != base.split()[1:3]: return "no request was refused, yet the result differs from the fault-free run"
    elif op == "qchain":
        rc1 = int(w[1]); rc2 = w[3]
        if injected and rc1 != 3 and rc2 != "3": return "request %d was refused but neither dissect (%d) nor compose (%s) returned URI_ERROR_MALLOC" % (k, rc1, rc2)
        if not injected and (rc1 == 3 or rc2 == "3"): return "URI_ERROR_MALLOC although no request was refused"
    return None

def requests_of(model_line):
    return int(model_line.split(" req=")[1].split()[0]) if " req=" in model_line else 0

def explore(chk, exes, qmdl, cs, every_position, nontrivial, corr, by_op):
    """run the calls fault-free and (every_position) with a failure at every position 1 .. requests+1 in both modes on
    the four builds; oracles on the implementation's lines, then model = implementation"""
    free = lib.run_lines(qmdl, [c + " 0 0" for c in cs])
    reqs = []; meta = []
    for c, o in zip(cs, free):
        n = requests_of(o)
        reqs.append(c + " 0 0"); meta.append((c, 0))
        if every_position:
            for k in range(1, n + 2):
                for fr in (0, 1):
                    reqs.append("%s %d %d" % (c, k, fr)); meta.append((c, k))
    for fl, cs_ in (("A", "1"), ("W", "4"), ("A_asan", "1"), ("W_asan", "4")):
        model = lib.run_lines(qmdl, reqs, env={"DRV_CSIZE": cs_})
        impl = lib.run_lines(exes[fl], reqs)
        chk.cov["evaluations"] += len(reqs); chk.cov["traces_validated_against_impl"] += len(reqs)
        base = {}
        for (c, k), rq, o, m in zip(meta, reqs, impl, model):
            if o.startswith("!") or o.startswith("?") or len(o.split()) < 3:
                chk.violation("crash or sanitizer report in a query-list call with the recording manager: " + o[:200], {"request": rq, "build": fl, "impl": o}); continue
            if k == 0: base[c] = o
            prob = oracle(rq, o, k, base.get(c))
            if prob: chk.violation(prob, {"request": rq, "call": c, "fail_at": k, "build": fl, "impl": o, "model": m})
            if "!erasure-mismatch" in m:
                chk.violation("the memory-tier model does not return the pure-tier value", {"correspondence": "Model/QueryM.v vs Model/Query.v", "request": rq, "model": m}, found_input=False)
            elif o != m: corr.append((rq, fl, o, m))
            if fl == "A":
                nontrivial.add(rq); op = o.split()[0]; by_op[op] = by_op.get(op, 0) + 1
    return len(reqs)
