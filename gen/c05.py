"""C05 — string output never exceeds the caller's buffer and reported sizes are exact."""
import json
import lib, uris
from lib import enc, dec, show

PID = "C05"

def check_long(chk, exes):
    """texts of 32 768 .. 131 073 characters (one long component, or that many segments): chars-required must be the length, capacity
    length+1 must succeed with the whole text, capacity length must be refused; judged on the implementation alone"""
    import parsesuite
    sizes = (32768, 65536, 65537) if chk.tier == "quick" else (32767, 32768, 32769, 65535, 65536, 65537, 131073)
    texts = [t for n in sizes for t in parsesuite.long_templates(n) if t.count("/") <= 70000]
    reqs = []; meta = []
    for t in texts:
        a = uris.P(t); L = len(t)
        for c in ("req", L + 1, L, L + 2, L - 1, 65536, 32768):
            reqs.append("tostring %s %d %s" % (c, (L + (0 if c == "req" else c)) % 2, a)); meta.append((t, c))
    n = 0
    for fl in ("A", "W"):     # plain builds (the sanitizer builds keep the parser's per-character recursion: see gen/c01.py check_long)
        impl = lib.run_lines(exes[fl], reqs, chunks=min(lib.NCPU, len(reqs)))
        chk.cov["evaluations"] += len(reqs); n += len(reqs)
        for (t, c), rq, o in zip(meta, reqs, impl):
            of = o.split(); L = len(t); prob = None
            if o.startswith("!") or len(of) < 3 or of[0] != "tostring": prob = "malformed result / crash on a long text: " + o[:160]
            elif int(of[2]) != L: prob = "chars-required is %s for a text of %d characters" % (of[2], L)
            elif c != "req":
                if len(of) < 7: prob = "short result"
                elif of[6] != "1": prob = "wrote beyond the stated capacity (guard zone damaged)"
                elif c >= L + 1 and (of[3] != "0" or of[4] not in ("-", str(L + 1)) or len(lib.dec(of[5]) or []) != L): prob = "capacity >= length+1 but the call failed or the text is incomplete"
                elif c < L + 1 and (of[3] != "4" or of[4] not in ("-", "0") or (c >= 1 and of[5] != "_")): prob = "capacity too small but no clean too-long failure"
            if prob: chk.violation(prob, {"request": rq[:80] + " ... (%d characters: %s...%s)" % (L, t[:12], t[-12:]), "build": fl, "impl": o[:160], "capacity": c})
    return n

def run(chk):
    proofs = lib.check_proofs(PID)
    exes = lib.build_impl(); mdl = lib.build_model()
    tier = chk.tier
    check_long(chk, exes)
    pool = uris.parsed_pool(chk, mdl, 700 if tier == "quick" else 12000)
    # IPv6 literals whose spelling is longer / shorter than the 39 characters written for them (no component's own length bounds the
    # capacity that is needed), and every combination of absent / empty / non-empty components
    special = uris.valid_texts(mdl, uris.long_ip6_texts() + uris.degenerate_texts())
    if tier == "quick": special = [t for i, t in enumerate(special) if "[" in t or i % 4 == 0]
    args = [uris.Pf(f) for f in pool] + [uris.P(t) for t in special] + uris.raw_fixed()
    # sizes from the model; then every capacity from -1 to len+2, charsWritten NULL or not
    sizes = lib.run_lines(mdl, ["tostring req 0 %s" % a for a in args])
    reqs = []
    for a, sz in zip(args, sizes):
        L = int(sz.split()[2])
        caps = list(range(-1, L + 3)) if L <= 64 or tier != "quick" else list(range(-1, 4)) + list(range(L - 3, L + 3))
        for c in caps:
            reqs.append("tostring %d %d %s" % (c, (c + L) % 2, a))
        reqs.append("tostring req 0 %s" % a)
    model = lib.run_lines(mdl, reqs)
    bad_corr = []
    nontrivial = set()
    for fl, exe in exes.items():
        impl = lib.run_lines(exe, reqs)
        chk.cov["evaluations"] += len(reqs); chk.cov["traces_validated_against_impl"] += len(reqs)
        for rq, o, m in zip(reqs, impl, model):
            f = rq.split(); of = o.split()
            # oracle on the implementation's own output: sizes and bounds
            prob = None
            if o.startswith("!") or len(of) < 3 or of[0] != "tostring": prob = "malformed result / crash: " + o[:160]
            elif f[1] != "req":
                cap = int(f[1]); req = int(of[2])
                if len(of) < 7: prob = "short result"
                else:
                    rc2, cw, txt, guard = of[3], of[4], of[5], of[6]
                    if guard != "1": prob = "wrote beyond the stated capacity (guard zone damaged)"
                    elif cap >= req + 1:
                        if rc2 != "0": prob = "capacity >= required+1 but the call failed"
                        elif cw not in ("-", str(req + 1)): prob = "charsWritten != length+1"
                        elif len(dec(txt) or []) != req: prob = "text length differs from charsRequired"
                    else:
                        if rc2 != "4": prob = "capacity too small but no URI_ERROR_TOSTRING_TOO_LONG"
                        elif cw not in ("-", "0"): prob = "charsWritten not reset to 0 on failure"
                        elif cap >= 1 and txt != "_": prob = "buffer not left as an empty string"
            if prob: chk.violation(prob, {"request": rq, "build": fl, "impl": o, "model": m})
            elif o != m: bad_corr.append((rq, fl, o, m))
            if fl == "A" and f[1] != "req": nontrivial.add((f[1], " ".join(f[3:])))
    if bad_corr and not chk.violations:
        rq, fl, o, m = bad_corr[0]
        chk.violation("correspondence broken: Model/Recompose.v and uriToString disagree (%d cases)" % len(bad_corr),
                      {"correspondence": "Model/Recompose.v vs src/UriRecompose.c", "request": rq, "build": fl, "impl": o, "model": m}, found_input=False)
    chk.cov["distinct_nontrivial"] = len(nontrivial)
    chk.cov["rule"] = "URIs parsed from generated/corpus texts plus raw objects no parse produces; every capacity from -1 to length+2 (window around the length for long texts in the quick tier); charsWritten NULL alternating; distinct by (capacity, URI)"
    chk.cov["distribution"] = {"uris": len(args), "raw_objects": len(uris.raw_fixed()), "requests": len(reqs)}
    chk.cov["samples"] = [{"request": reqs[i], "model": model[i]} for i in (0, len(reqs) // 2, len(reqs) - 2)]
    chk.assumptions = ["an actual write past the buffer is observed by guard zones / ASan exact-size buffers; the theorem is about the model's write log"]
    return chk.finish(proofs)

def replay(path):
    r = json.load(open(path)); exes = lib.build_impl(); mdl = lib.build_model()
    rq = r.get("request")
    if not rq: print(json.dumps(r, indent=1)); return 0
    print("request:", rq); print("model  :", lib.run_lines(mdl, [rq])[0])
    for fl, exe in exes.items(): print("impl %-7s:" % fl, lib.run_lines(exe, [rq])[0])
    return 0
