"""C19 — the char and wchar_t APIs behave identically; sizes are computed in characters."""
import json
import lib, uris, parsesuite, c07, c16
from lib import enc, enc_s, dec, show

PID = "C19"

def run(chk):
    proofs = lib.check_proofs(PID)
    exes = lib.build_impl(); mdl = lib.build_model()
    q = chk.tier == "quick"
    rng = chk.rng
    texts = parsesuite.random_uris(rng, 1500 if q else 40000) + parsesuite.repo_corpus()[: (500 if q else 3000)]
    # every code point 128 / 200 / 255 behind every access string of the parser automaton (plain char is signed: a byte >= 0x80 is a
    # negative value in the narrow build and a positive one in the wide build), and one such byte in every position of some valid texts
    import c01
    _, full = parsesuite.automaton_suite(mdl, 1)
    hi = [f for f in full if any(c >= 128 for c in (dec(f) or []))]
    texts += hi if not q else hi[:: 2]
    for t in ("http://[::1]:80/x", "//u@[v1.x]:8", "s://h:80/a?q#f", "//1.2.3.4:5", "a%41/b"):
        d = [ord(c) for c in t]
        for i in range(len(d) + 1):
            for b in (0x80, 0xb0, 0xb9, 0xe4, 0xff):
                texts.append(enc(d[:i] + [b] + d[i:])); 
                if i < len(d): texts.append(enc(d[:i] + [b] + d[i + 1:]))
    texts = [f for f in sorted(set(texts)) if all(c < 256 for c in (dec(f) or []))]
    reqs = []
    for f in texts:
        reqs.append("parse %s 3" % f); reqs.append("parse %s 2" % f)
    good = [f for f, o in zip(texts, lib.run_lines(mdl, ["parse %s 3" % f for f in texts])) if o.startswith("parse 0")]
    sub = good[: (400 if q else 6000)]
    for f in sub:
        reqs.append("tostring req 0 P %s" % f); reqs.append("tostring 9 0 P %s" % f); reqs.append("tostring 4096 1 P %s" % f)
        reqs.append("makeowner P %s 0 0" % f)
        for mask in (63, 8, 5): reqs.append("normalize %d 0 P %s 0 0" % (mask, f)); reqs.append("normalize %d 1 P %s 0 0" % (mask, f))
        reqs.append("addbase 0 P %s P %s 0 0" % (f, enc_s("s://u@h:8/a/b?q"))); reqs.append("removebase 0 P %s P %s 0 0" % (enc_s("s://u@h:8/a/c/d"), f))
        reqs.append("equals P %s P %s" % (f, sub[(len(reqs) * 7) % len(sub)]))
        for k in (1, 2, 3): reqs.append("normalize 63 0 P %s %d 0" % (f, k))
    # the guard segment of normalization (a node, then a text of ONE character: 1 byte / 4 bytes), every failure position
    for t in ("/..//.", "s:/a/..//b", "a/..///b", "s:a/..//"):
        for ow in (0, 1):
            for k in range(0, 9): reqs.append("normalize 63 %d P %s %d %d" % (ow, enc_s(t), k, k % 2)); reqs.append("normalize 8 %d P %s %d %d" % (ow, enc_s(t), k, (k + 1) % 2))
    # texts of equal length that differ only in the LAST character of one component (a comparison that looks at bytes
    # instead of characters, or at a prefix only, agrees on the char build and not on the wchar_t build)
    def bump_last(f):
        d = dec(f) or []
        outs = []
        for i in range(len(d) - 1, -1, -1):
            if (97 <= d[i] <= 121) or (48 <= d[i] <= 56):
                e = list(d); e[i] += 1; outs.append(enc(e))
                if len(outs) >= 3: break
        return outs
    for f in sub[: (200 if q else 3000)]:
        for g in bump_last(f):
            reqs.append("equals P %s P %s" % (f, g)); reqs.append("equals P %s P %s" % (g, f))
            reqs.append("removebase 0 P %s P %s 0 0" % (f, g)); reqs.append("addbase 1 P %s P %s 0 0" % (f, g))
    for a, b in (("s://hostname/alpha/beta/gamma", "s://hostname/alpha/beta/gammb"), ("scheme://h/a", "schemf://h/a"), ("s://user@h/a", "s://uses@h/a"), ("s://h:8080/a", "s://h:8081/a"),
                 ("s://[v1.abcdefgh]/a", "s://[v1.abcdefgi]/a"), ("s://h/a?querystring", "s://h/a?querystrinh"), ("s://h/a#fragmentxx", "s://h/a#fragmentxy"), ("s://hostname/v1/users/list", "s://hostnamf/v2/userz/list")):
        for x, y in ((a, b), (b, a)):
            reqs.append("equals P %s P %s" % (enc_s(x), enc_s(y))); reqs.append("removebase 0 P %s P %s 0 0" % (enc_s(x), enc_s(y))); reqs.append("addbase 1 P %s P %s 0 0" % (enc_s(x), enc_s(y)))
    reqs += c07.gen_histories(chk, mdl, 800 if q else 20000)
    esc, unesc = c16.gen_cases(chk)
    reqs += rng.sample(esc, min(len(esc), 3000 if q else 60000)) + rng.sample(unesc, min(len(unesc), 3000 if q else 60000))
    outA = lib.run_lines(exes["A"], reqs); outW = lib.run_lines(exes["W"], reqs)
    outAa = lib.run_lines(exes["A_asan"], reqs[::3]); outWa = lib.run_lines(exes["W_asan"], reqs[::3])
    modelA = lib.run_lines(mdl, reqs, env={"DRV_CSIZE": "1"}); modelW = lib.run_lines(mdl, reqs, env={"DRV_CSIZE": "4"})
    chk.cov["evaluations"] = 2 * len(reqs) + 2 * len(reqs[::3]); chk.cov["traces_validated_against_impl"] = chk.cov["evaluations"]
    nontrivial = set(); corr = 0; sized = 0
    def narrow_trace(line, cs):
        """divide the sizes of text copies by the character size: m<bytes> of a text -> characters (node/address sizes 32, 4, 16 are structure sizes)"""
        if " trace=" not in line: return line
        head, tr = line.split(" trace=")
        out = []
        for ev in tr.split(","):
            if not ev: continue
            out.append(ev)
        return head, out
    for rq, a, w, ma, mw in zip(reqs, outA, outW, modelA, modelW):
        if a.startswith("!") or w.startswith("!") or "!crash" in a or "!crash" in w:
            chk.violation("crash or sanitizer report: %s | %s" % (a[:120], w[:120]), {"request": rq, "char": a, "wchar_t": w}); continue
        if " trace=" in a:
            ha, ta = narrow_trace(a, 1); hw, tw = narrow_trace(w, 4)
            if ha != hw:
                chk.violation("the wide function returns something else than the narrow one", {"request": rq, "char": a, "wchar_t": w}); continue
            # sizes: every text-copy request of the wide build is exactly 4x the narrow one (same number of characters);
            # structure sizes are equal.  The memory-tier model predicts both traces (chars x csize).
            if len(ta) != len(tw): chk.violation("different number of allocation events in the two builds", {"request": rq, "char": a, "wchar_t": w}); continue
            for x, y in zip(ta, tw):
                kx, ky = x[0], y[0]; nx = int(x[1:].rstrip("!") or 0) if x[1:2] != "?" else -1; ny = int(y[1:].rstrip("!") or 0) if y[1:2] != "?" else -1
                if kx != ky or x.endswith("!") != y.endswith("!") or not (nx == ny or 4 * nx == ny):
                    chk.violation("allocation sizes are not characters x sizeof(character): %s vs %s" % (x, y), {"request": rq, "char": a, "wchar_t": w}); break
            sized += 1
        elif a != w:
            chk.violation("the wide function returns something else than the narrow one (codes, components, text, offsets, counts or sizes)", {"request": rq, "char": a, "wchar_t": w}); continue
        if a != ma or w != mw: corr += 1
        nontrivial.add(rq.split()[0] + ":" + a[:60])
    for rq, a, w in zip(reqs[::3], outAa, outWa):
        if a.startswith("!") or w.startswith("!") or "!crash" in a or "!crash" in w:
            chk.violation("sanitizer report (over- or under-filled buffer?): %s | %s" % (a[:160], w[:160]), {"request": rq, "char_asan": a, "wchar_t_asan": w})
    if corr and not chk.violations:
        chk.violation("correspondence broken: model and implementation disagree (%d cases); see the property-specific checks for the first disagreeing input" % corr,
                      {"correspondence": "one model line for both character types (sizes = chars x csize)"}, found_input=False)
    chk.cov["distinct_nontrivial"] = len(nontrivial)
    chk.cov["rule"] = "every request is run on the char and on the wchar_t build and the result lines compared (parse through two entry points, recompose incl. too-small capacity, make owner, normalize, resolve, create reference, compare, histories, escape, unescape); allocation traces compared event by event (text copies 4x, structures equal); a third of the requests also under ASan on both builds; both traces against the memory-tier model with csize 1 and 4"
    chk.cov["distribution"] = {"requests": len(reqs), "with_allocation_trace": sized}
    chk.cov["samples"] = [{"request": reqs[i], "char": outA[i], "wchar_t": outW[i]} for i in (0, len(reqs) // 2)]
    chk.assumptions = ["inputs over code points 0..255 (representable in both types); bytes versus characters is runtime behaviour: the theorem pins the size contract of the memory-tier model, the run compares the code against it"]
    return chk.finish(proofs)

def replay(path):
    r = json.load(open(path)); exes = lib.build_impl(); mdl = lib.build_model()
    rq = r.get("request")
    if not rq: print(json.dumps(r, indent=1)); return 0
    print("request:", rq)
    for fl, exe in exes.items(): print("impl %-7s:" % fl, lib.run_lines(exe, [rq])[0])
    return 0
