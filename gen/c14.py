"""C14 — any allocation failure is reported cleanly, without leak or corruption."""
import json
import lib, uris, qmlib
from lib import enc, enc_s, dec, show

PID = "C14"

def cases(chk, mdl):
    q = chk.tier == "quick"
    P = uris.P
    texts = ["s://u@h:8/a/b?q#f", "a/b/c", "//[v1.x]/a/../b/", "HTTP://%41@EX/../%7e?%41#%41", "s://1.2.3.4/a/./b/..", "x/../..", "/a/b/../..", "//[::1]:8/%41/../%42/",
             "s:", "", "/", "//h", "a", "s:a/b/../../c/d/e", "//@:/", "s://h/a/b/c/d/e/f/.."]
    # allocation sites that need a particular shape: address hosts at the very end / before a port, segments that cannot be a scheme
    texts += ["//1.2.3.4", "//1.2.3.4:80", "//1.2.3.4:80/", "//u:1@1.2.3.4", "a%41", "a%41?q", "a?q", "a#f", "//[::1]", "a/b/..", "s://h/a//..", "x/y//..", "/a/b/c/./"]
    # the guard of normalization (uriFixAmbiguity after dot removal: a node and a one-character text): absolute, rootless, relative
    texts += ["/..//.", "s:/a/..//b", "a/..///b", "s:a/..//", "/x/../..//%41/./b"]
    texts += chk.rng.sample(uris.valid_texts(mdl, uris.small_texts(3, alphabet=uris.SEG_FULL, auths=(None, "//h"), schemes=(None, "s"))), 60 if q else 800)
    # present-but-empty components (they are never copied: the owned object points at the library's constant), every host kind
    # with and without port / user info, IPv6 spellings of every length
    texts += ["//h:", "//@h", "//:", "//@:", "?", "#", "?#", "s://u@h:/?#", "//[v7.X]:8080/path", "//[v7.X]:", "s://@[v1.x]/a?q", "//u@1.2.3.4:/a", "//u:p@[::1]/a/b", "//[::1]:", "s:?", "s:#"]
    deg = uris.valid_texts(mdl, uris.degenerate_texts() + uris.long_ip6_texts())
    texts += chk.rng.sample(deg, 40 if q else 600)
    calls = []
    for t in texts:
        calls.append("parse %s 5" % enc_s(t))
        calls.append("makeowner %s" % P(t))
        for mask in ((63, 8, 9, 64) if q else (63, 8, 4, 1, 2, 16, 32, 12, 9, 59, 64, 4294967232)):
            for ow in (0, 1): calls.append("normalize %d %d %s" % (mask, ow, P(t)))
    bases = ["s://u@h:8/a/b?q", "s:/x/y", "s:a", "s://[::1]/a", "s://1.2.3.4", "s:/"]
    refs = ["", "..", "c/d/..", "/c/../..", "//g/a/..", "?y", "s:d/e", "g:h", ".//b", "../../x/y/z/..", "/.//a", "a/b/c/d",
            "//g/a/b/..", "g:a/b/..", "g:/.//a", "/", "/a/b/..", "//9.9.9.9/a/b/..", "//[::2]", ".//a", "s:a/b/.."] + (texts[:10] if q else texts[:60])
    for b in bases:
        for r in refs:
            calls.append("addbase 0 %s %s" % (P(r), P(b)))
        for s_ in ["s://u@h:8/a/c/d", "s:/x/z/w", "s://g/a", "t:a", "s://u@h:8/a/b/c/d/e", "s:a/b",
                   "t://1.2.3.4/a", "s://[::2]/a/b", "s://9.9.9.9/x", "s:/x/b:c", "s:/x//y", "s://u@h:8//x", "s://u@h:8/a/b:c/d", "s://u@h:8/a//d"]:
            calls.append("removebase 0 %s %s" % (P(s_), P(b))); calls.append("removebase 1 %s %s" % (P(s_), P(b)))
    return calls

def run(chk):
    proofs = lib.check_proofs(PID)
    exes = lib.build_impl(); mdl = lib.build_model()
    fnd = lib.Findings(PID)
    calls = cases(chk, mdl)
    # fault-free run first: how many requests does each call make? (from the model; cross-checked below)
    free = lib.run_lines(mdl, [c + " 0 0" for c in calls])
    reqs = []; meta = []
    for c, o in zip(calls, free):
        n = int(o.split(" req=")[1].split()[0]) if " req=" in o else 0
        reqs.append(c + " 0 0"); meta.append((c, 0, 0, n))
        for k in range(1, n + 3):     # up to two positions beyond the model's count: extra requests of a changed implementation are failed too
            for fr in (0, 1):
                reqs.append("%s %d %d" % (c, k, fr)); meta.append((c, k, fr, n))
    nontrivial = set(); corr = []; by_op = {}
    for fl, envm in (("A", "1"), ("W", "4"), ("A_asan", "1"), ("W_asan", "4")):
        model = lib.run_lines(mdl, reqs, env={"DRV_CSIZE": envm})
        impl = lib.run_lines(exes[fl], reqs)
        chk.cov["evaluations"] += len(reqs); chk.cov["traces_validated_against_impl"] += len(reqs)
        base_rc = {}
        for (c, k, fr, n), rq, o, m in zip(meta, reqs, impl, model):
            w = o.split()
            if o.startswith("!") or len(w) < 3:
                chk.violation("crash or sanitizer report under an allocation failure (touching released memory, double free, ...): " + o[:200], {"request": rq, "build": fl, "impl": o}); continue
            rc = w[1]
            if k == 0: base_rc[c] = rc
            live = int(o.split(" live=")[1].split()[0]); bad = int(o.split(" bad")[1].split("=")[1].split()[0])
            req = int(o.split(" req=")[1].split()[0]) if " req=" in o else -1
            injected = (k > 0 and req >= k)
            prob = None
            if " ro=0" in o: prob = "a read-only input URI was modified"
            elif "!resid" in o: prob = "after a failed parse %s block(s) are still allocated before the caller's clean-up" % o.split("!resid=")[1].split()[0]
            elif bad != 0: prob = "a block was released twice or one was released that was never handed out"
            elif live != 0: prob = "%d block(s) still allocated after the caller's clean-up" % live
            elif injected and rc != "3": prob = "allocation request %d failed but the call returned %s instead of URI_ERROR_MALLOC" % (k, rc)
            elif not injected and k > 0 and rc != base_rc.get(c): prob = "no request failed, yet the result differs from the fault-free run"
            if prob:
                shape = None
                if w[0] == "normalize" and live > 0 and w[3 - 1] in ("3",) : shape = "c14_norm_path_copies_leak"
                if shape and o == m and fnd.covers(shape, {"request": rq}): pass
                else: chk.violation(prob, {"request": rq, "call": c, "fail_at": k, "fail_from_k_on": bool(fr), "build": fl, "impl": o, "shape": shape})
            if o != m: corr.append((rq, fl, o, m))
            if fl == "A":
                nontrivial.add(rq); by_op[w[0]] = by_op.get(w[0], 0) + 1
    # the query-list calls: every position of dissect, compose and dissect -> compose -> free, against Model/QueryM.v
    qmdl = qmlib.build_model(); qcorr = []
    qcalls = qmlib.calls(chk, many=True)
    nq = qmlib.explore(chk, exes, qmdl, qcalls, True, nontrivial, qcorr, by_op)
    if corr and not chk.violations:
        rq, fl, o, m = corr[0]
        chk.violation("correspondence broken: the memory-tier model and the implementation disagree on result, ledger or allocation trace (%d cases)" % len(corr),
                      {"correspondence": "Model/ParseM.v, Model/OpsM.v vs src (allocation order, sizes, error exits)", "request": rq, "build": fl, "impl": o, "model": m}, found_input=False)
    if qcorr and not chk.violations:
        rq, fl, o, m = qcorr[0]
        chk.violation("correspondence broken: the memory-tier model of the query functions and the implementation disagree on result, *dest, ledger or allocation trace (%d cases)" % len(qcorr),
                      {"correspondence": qmlib.CORR, "request": rq, "build": fl, "impl": o, "model": m}, found_input=False)
    still = {}
    for f in fnd.items:
        o = lib.run_lines(exes["A"], [f["witness_args"][0]])[0]
        still[f["shape"]] = " live=0 " not in o + " "
    fnd.report(chk, still)
    chk.cov["distinct_nontrivial"] = len(nontrivial)
    chk.cov["rule"] = "every position k (1 .. requests+1) of the allocation sequence of every call, in fail-once and fail-from-k-on modes, for parse, make-owner, normalize (several masks, borrowed and owned), resolve and create-reference on small-scope and IP/percent inputs, and for dissect query, compose query and dissect -> compose -> free (small-scope query texts over {a,&,=}, escapes, lists of <= 3 items, random longer ones); result code, item count and *dest, ledger after the caller's clean-up, read-only inputs, full allocation trace vs the memory-tier model; 4 builds"
    chk.cov["distribution"] = {"calls": len(calls), "fault_plans": len(reqs), "query_calls": len(qcalls), "query_fault_plans": nq, "by_operation(A)": by_op, "known_finding_hits": fnd.hits}
    chk.cov["samples"] = [{"request": reqs[i]} for i in (1, len(reqs) // 2, len(reqs) - 1)]
    chk.cov["exhaustive"] = True
    return chk.finish(proofs, level="proof")

def replay(path):
    r = json.load(open(path)); exes = lib.build_impl(); mdl = lib.build_model()
    rq = r.get("request")
    if not rq: print(json.dumps(r, indent=1)); return 0
    if qmlib.is_query(rq): mdl = qmlib.build_model()
    print("request:", rq)
    for fl, exe in exes.items():
        print("model %-7s:" % fl, lib.run_lines(mdl, [rq], env={"DRV_CSIZE": "4" if fl.startswith("W") else "1"})[0])
        print("impl  %-7s:" % fl, lib.run_lines(exe, [rq])[0])
    return 0
